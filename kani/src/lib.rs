//! Kani harnesses on the functions extracted VERBATIM from /repo (build/<unit>_raw.rs, regenerated on every run).
//! The shim below only supplies the crate-internal names those functions mention (AvroResult, Error, Details).
#![allow(dead_code, unused_imports, unused_variables, unused_mut, clippy::all)]
use std::io::{Read, Write};

pub struct ExtErr;
include!(concat!(env!("VERIF_BUILD"), "/kani_details.rs"));
pub struct Error { details: Box<Details> }
impl Error {
    pub fn new(details: Details) -> Self { Self { details: Box::new(details) } }
    pub fn details(&self) -> &Details { &self.details }
    pub fn into_details(self) -> Details { *self.details }
}
impl From<Details> for Error { fn from(details: Details) -> Self { Self::new(details) } }
pub type AvroResult<T> = Result<T, Error>;

pub mod u01 {
    use super::*;
    include!(concat!(env!("VERIF_BUILD"), "/u01_varint_raw.rs"));

    // ---- reference implementations written from the Avro specification (the same definitions as units/spec_varint.rs)
    fn ref_zigzag(n: i64) -> u64 { if n >= 0 { (n as u64) << 1 } else { (((-(n + 1)) as u64) << 1) + 1 } }
    fn ref_unzigzag(u: u64) -> i64 { if u % 2 == 0 { (u / 2) as i64 } else { -((u / 2) as i64) - 1 } }
    fn ref_varint(mut u: u64, out: &mut [u8; 10]) -> usize {
        let mut k = 0;
        while k < 10 { if u < 128 { out[k] = u as u8; return k + 1; } out[k] = (128 + u % 128) as u8; u /= 128; k += 1; }
        k
    }
    /// (value mod 2^64, consumed) | Err(true)=overflow | Err(false)=eof
    fn ref_vparse(s: &[u8]) -> Result<(u64, usize), bool> {
        let mut acc: u128 = 0;
        let mut j = 0;
        while j < 10 {
            if j >= s.len() { return Err(false); }
            acc += ((s[j] % 128) as u128) << (7 * j);
            if s[j] < 128 { return Ok((acc as u64, j + 1)); }
            j += 1;
        }
        Err(true)
    }

    /// COMPLETE (full i64 domain, loop bounded by the operand width 10): the encoder emits exactly the spec's bytes
    #[cfg(kani)] #[kani::proof] #[kani::unwind(12)]
    fn zig_i64_matches_spec() {
        let n: i64 = kani::any();
        let mut buf = [0u8; 12];
        let mut w: &mut [u8] = &mut buf[..];
        let r = zig_i64(n, &mut w);
        let left = w.len();
        let mut want = [0u8; 10];
        let k = ref_varint(ref_zigzag(n), &mut want);
        assert!(r.is_ok());
        assert!(r.ok().unwrap() == k);
        assert!(12 - left == k);
        let mut i = 0;
        while i < 10 { if i < k { assert!(buf[i] == want[i]); } i += 1; }
    }

    /// COMPLETE (all inputs of up to 11 bytes; a varint reader never looks at more than 10): the decoder agrees with the
    /// specification parse: value, bytes consumed, and error class
    #[cfg(kani)] #[kani::proof] #[kani::unwind(12)]
    fn zag_i64_matches_spec() {
        let bytes: [u8; 11] = kani::any();
        let len: usize = kani::any();
        kani::assume(len <= 11);
        let mut rd: &[u8] = &bytes[..len];
        let r = zag_i64(&mut rd);
        let consumed = len - rd.len();
        match (r, ref_vparse(&bytes[..len])) {
            (Ok(n), Ok((v, k))) => { assert!(n == ref_unzigzag(v)); assert!(consumed == k); }
            (Ok(_), Err(_)) => assert!(false),
            (Err(e), Ok(_)) => assert!(false),
            (Err(e), Err(overflow)) => { assert!(matches!(e.details(), Details::IntegerOverflow) == overflow); }
        }
    }

    /// COMPLETE: round trip with an arbitrary following byte (exact consumption => datums can be concatenated)
    #[cfg(kani)] #[kani::proof] #[kani::unwind(12)]
    fn zig_zag_roundtrip() {
        let n: i64 = kani::any();
        let tail: u8 = kani::any();
        let mut buf = [0u8; 11];
        let k = { let mut w: &mut [u8] = &mut buf[..10]; zig_i64(n, &mut w).ok().unwrap() };
        buf[k] = tail;
        let mut rd: &[u8] = &buf[..k + 1];
        let m = zag_i64(&mut rd);
        assert!(m.is_ok());
        assert!(m.ok().unwrap() == n);
        assert!(rd.len() == 1);
    }

    /// COMPLETE: int = long on the i32 range; values outside i32 are rejected by zag_i32
    #[cfg(kani)] #[kani::proof] #[kani::unwind(12)]
    fn zag_i32_range() {
        let n: i64 = kani::any();
        let mut buf = [0u8; 10];
        let k = { let mut w: &mut [u8] = &mut buf[..]; zig_i64(n, &mut w).ok().unwrap() };
        let mut rd: &[u8] = &buf[..k];
        let m = zag_i32(&mut rd);
        assert!(m.is_ok() == (n >= i32::MIN as i64 && n <= i32::MAX as i64));
        if let Ok(v) = m { assert!(v as i64 == n); }
    }
}
