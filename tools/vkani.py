"""vkani — Kani (CBMC) on the functions extracted verbatim from /repo (build/<unit>_raw.rs).

Harnesses live in /verif/kani/src/lib.rs.  `complete` harnesses quantify over the full input domain with every loop unwound to
an operand-width constant and Kani's unwinding assertions on: a pass is a proof.  Anything else is listed as bounded and never
counted.  A refuted harness yields concrete values (concrete playback) that are turned into a replay scenario and run against
the real crate.
"""
import concurrent.futures as cf
import json
import os
import re
import subprocess
import time

HERE = os.path.dirname(os.path.abspath(__file__))
VERIF = os.path.dirname(HERE)
KANI_DIR = os.path.join(VERIF, 'kani')
BUILD = os.path.join(VERIF, 'build')

# unit -> harnesses.  decode: how to turn concrete-playback byte vectors (in kani::any() order) into a replay scenario
HARNESSES = {
    'u01_varint': [
        dict(name='zig_i64_matches_spec', complete=True, fn='util::zig_i64', props=['C01', 'C02', 'C13'], unwind=12, decode='i64->zig_i64'),
        dict(name='zag_i64_matches_spec', complete=True, fn='util::zag_i64', props=['C01', 'C02', 'C05', 'C06'], unwind=12, decode='bytes11,len->zag_i64'),
        dict(name='zig_zag_roundtrip', complete=True, fn='util::zig_i64+zag_i64', props=['C01'], unwind=12, decode='i64,u8->roundtrip'),
        dict(name='zag_i32_range', complete=True, fn='util::zag_i32', props=['C01', 'C02', 'C06'], unwind=12, decode='i64->zig_i64'),
    ],
}


def _env():
    return dict(os.environ, CARGO_NET_OFFLINE='true', VERIF_BUILD=BUILD, CARGO_TARGET_DIR=os.path.join(VERIF, 'target', 'kani'))


def prepare():
    import vgen
    # the shim's Details carries only the variants the extracted functions (and the harnesses) mention: a 178-variant enum
    # with String/Vec payloads costs CBMC minutes of drop glue
    used = set(['IntegerOverflow'])
    for f in os.listdir(BUILD):
        if f.endswith('_raw.rs'):
            used |= set(re.findall(r'Details\s*::\s*(\w+)', open(os.path.join(BUILD, f)).read()))
    open(os.path.join(BUILD, 'kani_details.rs'), 'w').write(vgen.gen_details('kani', only=used)[0])
    if os.path.exists('/repo/Cargo.lock'):
        pass  # the harness crate has no dependencies


def run_harness(h, playback=False, timeout=1500):
    cmd = ['cargo', 'kani', '--harness', h['name']]
    if playback:
        cmd += ['-Z', 'concrete-playback', '--concrete-playback=print']
    t0 = time.time()
    try:
        p = subprocess.run(cmd, cwd=KANI_DIR, env=_env(), stdout=subprocess.PIPE, stderr=subprocess.STDOUT, text=True, timeout=timeout)
        out = p.stdout
    except subprocess.TimeoutExpired as e:
        return dict(status='undecided', why='timeout after %ds' % timeout, output=(e.stdout or '')[-2000:] if isinstance(e.stdout, str) else '', wall=time.time() - t0)
    m = re.search(r'\*\* (\d+) of (\d+) failed', out)
    ver = re.search(r'VERIFICATION:- (\w+)', out)
    res = dict(output=out[-6000:], wall=round(time.time() - t0, 1), checks=int(m.group(2)) if m else 0, failed_checks=int(m.group(1)) if m else None)
    if ver and ver.group(1) == 'SUCCESSFUL':
        res['status'] = 'proved'
    elif ver and ver.group(1) == 'FAILED':
        res['status'] = 'refuted'
        res['failed'] = re.findall(r'Failed Checks: (.*)', out)[:8]
        # an unwinding assertion failure means the bound was too small: not a refutation of the property
        if any('unwinding assertion' in f for f in res['failed']):
            res['status'] = 'undecided'
            res['why'] = 'unwinding assertion failed (loop bound exceeded): harness no longer complete for this code'
    else:
        res['status'] = 'undecided'
        res['why'] = 'kani did not report a verdict: ' + out[-600:]
    if playback:
        vecs = re.findall(r'//\s*(-?\d+|\[.*?\]|.*)\n\s*vec!\[([0-9, ]*)\]', out)
        res['playback'] = [[int(x) for x in v[1].split(',') if x.strip()] for v in vecs]
    return res


def playback_to_scenario(h, vecs):
    try:
        d = h['decode']
        le = lambda b: int.from_bytes(bytes(b), 'little', signed=False)
        sle = lambda b: int.from_bytes(bytes(b), 'little', signed=True)
        if d == 'i64->zig_i64':
            return dict(kind='zig_zag_roundtrip', n=sle(vecs[0]), tail='')
        if d == 'i64,u8->roundtrip':
            return dict(kind='zig_zag_roundtrip', n=sle(vecs[0]), tail='%02x' % vecs[1][0])
        if d == 'bytes11,len->zag_i64':
            n = min(le(vecs[1]), 11)
            return dict(kind='zag_i64', bytes=bytes(vecs[0][:n]).hex())
    except Exception:
        return None
    return None


def run_for(pid, units, seed, only=None):
    import vcex
    todo = []
    for u in units:
        for h in HARNESSES.get(u, []):
            if pid in h['props'] and (only is None or h['name'] in only):
                todo.append((u, h))
    if not todo:
        return []
    prepare()
    out = []
    with cf.ThreadPoolExecutor(max_workers=4) as ex:
        results = list(ex.map(lambda uh: run_harness(uh[1]), todo))
    for (u, h), r in zip(todo, results):
        item = dict(unit=u, harness=h['name'], fn=h['fn'], complete=h['complete'], bound=None if h['complete'] else h.get('bound'), backend='kani 0.68 / cbmc 6.11',
                    status=r['status'], checks=r.get('checks', 0), wall_s=r.get('wall'), why=r.get('why'), unwind=h.get('unwind'))
        if r['status'] == 'refuted':
            pb = run_harness(h, playback=True)
            sc = playback_to_scenario(h, pb.get('playback') or [])
            cex = dict(confirmed_on_real_code=False, kani_failed_checks=r.get('failed'), playback=pb.get('playback'))
            if sc and vcex.build_replay():
                rc, o = vcex.run_scenario(sc)
                cex.update(scenario=sc, replay_output=o[:1500], confirmed_on_real_code=(rc == 1))
            item['cex'] = cex
            item['output'] = r['output']
        out.append(item)
    return out


if __name__ == '__main__':
    import sys
    print(json.dumps(run_for(sys.argv[1], sys.argv[2].split(','), 0), indent=1)[:4000])
