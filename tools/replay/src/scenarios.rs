use crate::{jhex, refimpl as rf};
use apache_avro::{__verif_hooks as hk, Schema, types::Value};
use serde_json::Value as J;

pub fn run(sc: &J) -> Result<Option<String>, String> {
    // C05: a panic in any entry point is itself a violation
    let sc2 = sc.clone();
    match std::panic::catch_unwind(move || run_inner(&sc2)) {
        Ok(r) => r,
        Err(p) => {
            let msg = p.downcast_ref::<String>().cloned().or_else(|| p.downcast_ref::<&str>().map(|s| s.to_string())).unwrap_or_default();
            Ok(Some(format!("PANIC in the real code: {msg}")))
        }
    }
}

fn run_inner(sc: &J) -> Result<Option<String>, String> {
    match sc["kind"].as_str().unwrap_or("") {
        // C06/C14: decoding `bytes` under `schema` must not return Ok with a value that does not validate,
        // and Ok must mean a complete datum was present.
        "decode_datum" => {
            let schema = Schema::parse_str(sc["schema"].as_str().ok_or("schema")?).map_err(|e| e.to_string())?;
            let bytes = jhex(sc, "bytes");
            let mut rd = &bytes[..];
            match apache_avro::from_avro_datum(&schema, &mut rd, None) {
                Ok(v) => {
                    if !v.validate(&schema) { return Ok(Some(format!("decode returned Ok({v:?}) which does not validate against the schema"))); }
                    match apache_avro::to_avro_datum(&schema, v.clone()) {
                        Ok(re) => { let consumed = bytes.len() - rd.len();
                            // the input is a (possibly truncated) canonical encoding: what was accepted must re-encode to the bytes consumed
                            if sc["canonical"].as_bool().unwrap_or(false) && re[..] != bytes[..consumed] { return Ok(Some(format!("decode accepted {consumed} input bytes {:02x?} but the value re-encodes to {} bytes (a truncated datum was completed with invented content)", &bytes[..consumed.min(16)], re.len()))); }
                            let mut rd2 = &re[..];
                            match apache_avro::from_avro_datum(&schema, &mut rd2, None) { Ok(v2) if v2 == v => {}, other => return Ok(Some(format!("re-decode differs: {other:?} vs {v:?}"))) }
                            let _ = consumed; Ok(None) }
                        Err(e) => Ok(Some(format!("re-encoding the decoded value failed: {e}"))),
                    }
                }
                Err(_) => Ok(None),
            }
        }
        // C02/C01: conformance vectors produced by an INDEPENDENT reference encoder (tools/mkvectors.py, written from the
        // specification): encode(value) must be exactly `hex`; decode(hex) must be the value; every alternative spec-conforming
        // encoding in `alt` (several blocks, negative counts with byte sizes) must decode to the same value, consuming everything
        "datum_vector" => {
            let schema = Schema::parse_str(sc["schema"].as_str().ok_or("schema")?).map_err(|e| e.to_string())?;
            let value = crate::dsl(&sc["value"])?;
            let want = jhex(sc, "hex");
            let value = value.resolve(&schema).map_err(|e| format!("vector value does not fit its schema: {e}"))?;
            let got = apache_avro::to_avro_datum(&schema, value.clone()).map_err(|e| format!("encode: {e}"))?;
            // a map's entry order is unspecified: compare maps through decoding only
            let has_map = sc["schema"].as_str().unwrap_or("").contains("\"map\"");
            if got != want && !has_map { return Ok(Some(format!("encode({value:?}) = {:02x?}, the reference encoding is {:02x?}", got, want))); }
            let mut inputs = vec![want.clone()];
            if let Some(a) = sc["alt"].as_array() { for x in a { inputs.push(crate::hex(x.as_str().unwrap_or(""))); } }
            for inp in inputs {
                let mut rd = &inp[..];
                match apache_avro::from_avro_datum(&schema, &mut rd, None) {
                    Ok(v) if rd.is_empty() && (v == value || apache_avro::to_avro_datum(&schema, v.clone()).ok() == Some(got.clone())) => {}
                    other => return Ok(Some(format!("decode({:02x?}) = {other:?} with {} byte(s) left; expected {value:?}", inp, rd.len()))),
                }
                // the schema-aware deserializer accepts the same bytes (into the generic Value through serde)
                let dr = apache_avro::reader::datum::GenericDatumReader::builder(&schema).build().map_err(|e| e.to_string())?;
                let mut rd = &inp[..];
                if let Err(e) = dr.read_value(&mut rd) { return Ok(Some(format!("GenericDatumReader rejects {:02x?}: {e}", inp))); }
            }
            Ok(None)
        }
        // C01/C02: zig_i64 emits exactly the specification's zig-zag varint
        "zig_i64" => {
            let n = sc["n"].as_i64().ok_or("n")?;
            let mut out = Vec::new();
            let r = hk::zig_i64(n, &mut out).map_err(|e| e.to_string())?;
            let want = rf::long(n);
            if out != want || r != want.len() { return Ok(Some(format!("zig_i64({n}) wrote {out:02x?} (returned {r}), specification says {want:02x?}"))); }
            Ok(None)
        }
        // C01/C05/C06: zag_i64 on arbitrary bytes agrees with the specification parse
        "zag_i64" => {
            let bytes = jhex(sc, "bytes");
            let mut rd = &bytes[..];
            let r = hk::zag_i64(&mut rd);
            let consumed = bytes.len() - rd.len();
            match (r, rf::vparse(&bytes)) {
                (Ok(n), rf::VParse::Done(v, k)) => if n != rf::unzigzag(v) || consumed != k { Ok(Some(format!("zag_i64 -> Ok({n}) consumed {consumed}; spec: {} consumed {k}", rf::unzigzag(v)))) } else { Ok(None) },
                (Ok(n), other) => Ok(Some(format!("zag_i64 -> Ok({n}) but spec parse is {other:?}"))),
                (Err(e), rf::VParse::Done(v, _)) => Ok(Some(format!("zag_i64 -> Err({e}) but spec parse is Done({v})"))),
                (Err(_), _) => Ok(None),
            }
        }
        "zig_zag_roundtrip" => {
            let n = sc["n"].as_i64().ok_or("n")?;
            let tail = jhex(sc, "tail");
            let mut out = Vec::new();
            hk::zig_i64(n, &mut out).map_err(|e| e.to_string())?;
            let l = out.len();
            out.extend_from_slice(&tail);
            let mut rd = &out[..];
            match hk::zag_i64(&mut rd) {
                Ok(m) if m == n && out.len() - rd.len() == l => Ok(None),
                other => Ok(Some(format!("zag(zig({n}) ++ tail) = {other:?}, consumed {} of {l}", out.len() - rd.len()))),
            }
        }
        // C13: a sink that accepts at most `accept` bytes per write call (and optionally fails at call `fail_at`)
        // must receive exactly the bytes a Vec receives, or the call must return Err.
        "write_datum_faulty_sink" => {
            let schema = Schema::parse_str(sc["schema"].as_str().ok_or("schema")?).map_err(|e| e.to_string())?;
            let bytes = jhex(sc, "datum");
            let value = apache_avro::from_avro_datum(&schema, &mut &bytes[..], None).map_err(|e| e.to_string())?;
            let accept = sc["accept"].as_u64().unwrap_or(1) as usize;
            let fail_at = sc["fail_at"].as_u64().map(|x| x as usize);
            let w = apache_avro::writer::datum::GenericDatumWriter::builder(&schema).build().map_err(|e| e.to_string())?;
            let mut good = Vec::new();
            w.write_value_ref(&mut good, &value).map_err(|e| e.to_string())?;
            let mut sink = FaultySink { data: Vec::new(), accept, fail_at, calls: 0 };
            match w.write_value_ref(&mut sink, &value) {
                Ok(_) => if sink.data != good { Ok(Some(format!("write returned Ok but the sink holds {:02x?}, an in-memory buffer holds {:02x?}", sink.data, good))) } else { Ok(None) },
                Err(_) => Ok(None),
            }
        }
        // C18: a sequence of messages through ONE GenericSingleObjectWriter; message i goes to a sink that fails at
        // call index fail_at[i] (null = healthy). Every message that returns Ok must be header ++ datum and decode back.
        "single_object_sequence" => {
            let schema = Schema::parse_str(sc["schema"].as_str().ok_or("schema")?).map_err(|e| e.to_string())?;
            let mut w = apache_avro::GenericSingleObjectWriter::new_with_capacity(&schema, 64).map_err(|e| e.to_string())?;
            let rd = apache_avro::GenericSingleObjectReader::builder().schema(schema.clone()).build().map_err(|e| e.to_string())?;
            let msgs = sc["datums"].as_array().ok_or("datums")?;
            for (i, m) in msgs.iter().enumerate() {
                let bytes = crate::hex(m.as_str().unwrap_or(""));
                let value = apache_avro::from_avro_datum(&schema, &mut &bytes[..], None).map_err(|e| e.to_string())?;
                let fail_at = sc["fail_at"].get(i).and_then(|x| x.as_u64()).map(|x| x as usize);
                let mut sink = FaultySink { data: Vec::new(), accept: usize::MAX, fail_at, calls: 0 };
                match w.write_value_ref(&value, &mut sink) {
                    Ok(n) => {
                        if sink.data.len() != 10 + bytes.len() || sink.data[10..] != bytes[..] || sink.data[..2] != [0xC3, 0x01] || n != sink.data.len() {
                            return Ok(Some(format!("message {i}: Ok({n}) but sink holds {:02x?}; expected C3 01 <fp8> {:02x?}", sink.data, bytes)));
                        }
                        match rd.read_value(&mut &sink.data[..]) { Ok(v) if v == value => {}, other => return Ok(Some(format!("message {i} does not read back: {other:?}"))) }
                    }
                    Err(e) => { if fail_at.is_none() { return Ok(Some(format!("message {i}: healthy sink but write failed: {e}"))); } }
                }
            }
            Ok(None)
        }
        // C13: documented "returns the number of bytes written" (SpecificSingleObjectWriter::write_value, String payload)
        "specific_single_object_count" => {
            let text = sc["text"].as_str().unwrap_or("").to_string();
            let w = apache_avro::SpecificSingleObjectWriter::<String>::new().map_err(|e| e.to_string())?;
            let mut out = Vec::new();
            let n = w.write_value(text.clone(), &mut out).map_err(|e| e.to_string())?;
            if n != out.len() { return Ok(Some(format!("write_value returned {n} but {} bytes were written", out.len()))); }
            Ok(None)
        }
        // C18: every construction route of the single-object writers and readers — header = C3 01 ++ little-endian CRC-64-AVRO
        // (reference implementation) of the canonical form of the schema THE DATUM IS ENCODED WITH, and a reader built for that
        // schema accepts the message. Routes: Generic writer new_with_capacity; Specific writer new(), builder() with the
        // type's schema, builder().resolved(other schema); Generic reader builder; Specific reader new().
        "single_object_constructors" => {
            #[derive(serde::Serialize, serde::Deserialize, PartialEq, Debug, Clone)]
            struct Pt { x: i64, y: String }
            impl apache_avro::AvroSchema for Pt {
                fn get_schema() -> Schema { Schema::parse_str("{\"type\":\"record\",\"name\":\"Pt\",\"fields\":[{\"name\":\"x\",\"type\":\"long\"},{\"name\":\"y\",\"type\":\"string\"}]}").unwrap() }
            }
            impl From<Pt> for Value { fn from(p: Pt) -> Value { Value::Record(vec![("x".into(), Value::Long(p.x)), ("y".into(), Value::String(p.y))]) } }
            let own = <Pt as apache_avro::AvroSchema>::get_schema();
            let other = Schema::parse_str("{\"type\":\"record\",\"name\":\"Pt\",\"namespace\":\"com.example\",\"fields\":[{\"name\":\"x\",\"type\":\"long\"},{\"name\":\"y\",\"type\":\"string\"}]}").map_err(|e| e.to_string())?;
            let expect_header = |s: &Schema| -> Vec<u8> { let mut h = vec![0xC3u8, 0x01]; h.extend_from_slice(&crate::refimpl::crc64avro(s.canonical_form().as_bytes()).to_le_bytes()); h };
            let pt = Pt { x: -7, y: "abc".into() };
            let datum = apache_avro::to_avro_datum(&own, Value::from(pt.clone())).map_err(|e| e.to_string())?;
            let check = |route: &str, schema: &Schema, msg: &[u8]| -> Option<String> {
                let h = expect_header(schema);
                if msg.len() < 10 || msg[..10] != h[..] { return Some(format!("{route}: message starts with {:02x?}, the header of the writer's schema is {:02x?}", &msg[..msg.len().min(10)], h)); }
                if msg[10..] != datum[..] { return Some(format!("{route}: after the header come {:02x?}, the datum is {:02x?}", &msg[10..], datum)); }
                match apache_avro::GenericSingleObjectReader::builder().schema(schema.clone()).build() {
                    Ok(rd) => match rd.read_value(&mut &msg[..]) { Ok(_) => None, Err(e) => Some(format!("{route}: a reader built for the writer's schema rejects the message: {e}")) },
                    Err(e) => Some(format!("{route}: reader construction failed: {e}")),
                }
            };
            // generic writer
            let mut gw = apache_avro::GenericSingleObjectWriter::new_with_capacity(&other, 64).map_err(|e| e.to_string())?;
            let mut out = Vec::new(); gw.write_value_ref(&Value::from(pt.clone()), &mut out).map_err(|e| e.to_string())?;
            if let Some(m) = check("GenericSingleObjectWriter::new_with_capacity(other)", &other, &out) { return Ok(Some(m)); }
            // specific writer: new()
            let sw = apache_avro::SpecificSingleObjectWriter::<Pt>::new().map_err(|e| e.to_string())?;
            let mut out = Vec::new(); sw.write_value(pt.clone(), &mut out).map_err(|e| e.to_string())?;
            if let Some(m) = check("SpecificSingleObjectWriter::new()", &own, &out) { return Ok(Some(m)); }
            let mut out = Vec::new(); sw.write_ref(&pt, &mut out).map_err(|e| e.to_string())?;
            if let Some(m) = check("SpecificSingleObjectWriter::new().write_ref", &own, &out) { return Ok(Some(m)); }
            // specific writer: builder() with defaults
            let sw = apache_avro::SpecificSingleObjectWriter::<Pt>::builder().build();
            let mut out = Vec::new(); sw.write_value(pt.clone(), &mut out).map_err(|e| e.to_string())?;
            if let Some(m) = check("SpecificSingleObjectWriter::builder().build()", &own, &out) { return Ok(Some(m)); }
            // specific writer: builder() with a schema of the caller's choice
            let sw = apache_avro::SpecificSingleObjectWriter::<Pt>::builder().resolved(other.clone()).map_err(|e| e.to_string())?.build();
            let mut out = Vec::new(); sw.write_value(pt.clone(), &mut out).map_err(|e| e.to_string())?;
            if let Some(m) = check("SpecificSingleObjectWriter::builder().resolved(other).build()", &other, &out) { return Ok(Some(m)); }
            // specific reader
            let sr = apache_avro::SpecificSingleObjectReader::<Pt>::new().map_err(|e| e.to_string())?;
            let mut msg = expect_header(&own); msg.extend_from_slice(&datum);
            match sr.read(&mut &msg[..]) { Ok(p) if p == pt => {}, other => return Ok(Some(format!("SpecificSingleObjectReader::new(): a spec-conforming message of its schema reads as {other:?}"))) }
            let mut bad = msg.clone(); bad[5] ^= 1;
            if sr.read(&mut &bad[..]).is_ok() { return Ok(Some("SpecificSingleObjectReader::new(): a message with a different fingerprint is accepted".into())); }
            Ok(None)
        }
        // C13/C18: the single-object writers under short writes, injected errors and Interrupted at every sink call: Ok(n) means
        // the sink holds exactly header ++ datum and n is its length; the next message on the same writer is complete again
        "single_object_faulty_sink" => {
            #[derive(serde::Serialize, Clone)]
            struct Pt { x: i64, y: String }
            impl apache_avro::AvroSchema for Pt {
                fn get_schema() -> Schema { Schema::parse_str("{\"type\":\"record\",\"name\":\"Pt\",\"fields\":[{\"name\":\"x\",\"type\":\"long\"},{\"name\":\"y\",\"type\":\"string\"}]}").unwrap() }
            }
            impl From<Pt> for Value { fn from(p: Pt) -> Value { Value::Record(vec![("x".into(), Value::Long(p.x)), ("y".into(), Value::String(p.y))]) } }
            let schema = <Pt as apache_avro::AvroSchema>::get_schema();
            let pt = Pt { x: 300, y: "abcdefghij".into() };
            let mut good = vec![0xC3u8, 0x01]; good.extend_from_slice(&crate::refimpl::crc64avro(schema.canonical_form().as_bytes()).to_le_bytes());
            good.extend(apache_avro::to_avro_datum(&schema, Value::from(pt.clone())).map_err(|e| e.to_string())?);
            let sw = apache_avro::SpecificSingleObjectWriter::<Pt>::new().map_err(|e| e.to_string())?;
            for route in ["specific.write_value", "specific.write_ref", "specific.write", "generic.write_value_ref", "generic.write_value"] {
                for accept in [1usize, 2, 3, 7, 9, 10, 11, usize::MAX] {
                    let mut gw = apache_avro::GenericSingleObjectWriter::new_with_capacity(&schema, 64).map_err(|e| e.to_string())?;
                    let mut run = |fail_at: Option<usize>, interrupt_at: Option<usize>| -> (Result<usize, String>, Vec<u8>, usize) {
                        let mut sink = MatrixSink { data: Vec::new(), accept, fail_at, interrupt_at, calls: 0 };
                        let r = match route {
                            "specific.write_value" => sw.write_value(pt.clone(), &mut sink),
                            "specific.write_ref" => sw.write_ref(&pt, &mut sink),
                            "specific.write" => sw.write(pt.clone(), &mut sink),
                            "generic.write_value_ref" => gw.write_value_ref(&Value::from(pt.clone()), &mut sink),
                            _ => gw.write_value(Value::from(pt.clone()), &mut sink),
                        };
                        (r.map_err(|e| e.to_string()), sink.data, sink.calls)
                    };
                    let (_, _, calls) = run(None, None);
                    let mut modes: Vec<(Option<usize>, Option<usize>)> = vec![(None, None)];
                    for i in 0..calls.min(200) { modes.push((Some(i), None)); modes.push((None, Some(i))); }
                    modes.push((None, None));   // and once more after all the failures, on the same (generic) writer
                    for (fa, ia) in modes {
                        let (r, data, _) = run(fa, ia);
                        if let Ok(n) = r {
                            if data != good || n != good.len() {
                                return Ok(Some(format!("{route} accept={accept} fail_at={fa:?} interrupt_at={ia:?}: Ok({n}) but the sink holds {} bytes {:02x?}; header ++ datum is {} bytes {:02x?}", data.len(), &data[..data.len().min(16)], good.len(), &good[..16])));
                            }
                        }
                    }
                }
            }
            Ok(None)
        }
        // C13: encode's returned count equals bytes appended (datum given as hex under schema)
        "encode_count" => {
            let schema = Schema::parse_str(sc["schema"].as_str().ok_or("schema")?).map_err(|e| e.to_string())?;
            let bytes = jhex(sc, "datum");
            let value = apache_avro::from_avro_datum(&schema, &mut &bytes[..], None).map_err(|e| e.to_string())?;
            let w = apache_avro::writer::datum::GenericDatumWriter::builder(&schema).build().map_err(|e| e.to_string())?;
            let mut out = Vec::new();
            let n = w.write_value_ref(&mut out, &value).map_err(|e| e.to_string())?;
            if n != out.len() || out != bytes { return Ok(Some(format!("write_value_ref returned {n}, wrote {} bytes {:02x?}", out.len(), out))); }
            Ok(None)
        }
        // C13/C03: container writer history. ops: ["a:<hex datum>" append_value_ref | "u:<hex>" unvalidated append of a
        // value decoded under `vschema` (may not fit the writer schema) | "f" flush]. Sink accepts `accept` bytes per
        // call, fails at call `fail_at`. If every op returns Ok the sink must hold exactly what a Vec holds; reading
        // the file must return exactly the values whose append returned Ok.
        "container_history" => {
            let schema = Schema::parse_str(sc["schema"].as_str().ok_or("schema")?).map_err(|e| e.to_string())?;
            let vschema = match sc.get("vschema").and_then(|x| x.as_str()) { Some(t) => Schema::parse_str(t).map_err(|e| e.to_string())?, None => schema.clone() };
            let accept = sc["accept"].as_u64().map(|x| x as usize).unwrap_or(usize::MAX);
            let fail_at = sc["fail_at"].as_u64().map(|x| x as usize);
            let block_size = sc["block_size"].as_u64().map(|x| x as usize).unwrap_or(16000);
            let ops: Vec<String> = sc["ops"].as_array().ok_or("ops")?.iter().map(|x| x.as_str().unwrap_or("").to_string()).collect();
            let run = |sink: &mut dyn std::io::Write| -> (bool, Vec<Value>) {
                let mut w = apache_avro::Writer::builder().schema(&schema).writer(sink).marker([7u8; 16]).block_size(block_size).build().unwrap();
                let mut all_ok = true; let mut appended = Vec::new();
                for op in &ops {
                    if op == "f" { if w.flush().is_err() { all_ok = false; } continue; }
                    let (k, h) = op.split_at(2);
                    let bytes = crate::hex(h);
                    let v = if k == "a:" { apache_avro::from_avro_datum(&schema, &mut &bytes[..], None).unwrap() } else { apache_avro::from_avro_datum(&vschema, &mut &bytes[..], None).unwrap() };
                    let r = if k == "a:" { w.append_value_ref(&v) } else { w.unvalidated_append_value_ref(&v) };
                    match r { Ok(_) => appended.push(v), Err(_) => all_ok = false }
                }
                // finish: an explicit flush (default) or just dropping the writer
                if sc["finish"].as_str() != Some("drop") && w.flush().is_err() { all_ok = false; }
                drop(w);
                (all_ok, appended)
            };
            let mut good = Vec::new();
            let (_, appended_good) = run(&mut good);
            let mut sink = FaultySink { data: Vec::new(), accept, fail_at, calls: 0 };
            let (all_ok, appended_faulty) = run(&mut sink);
            if sc["retry"].as_bool().unwrap_or(false) {
                // the sink failed once and then worked: what it holds must be a readable file with exactly the values whose
                // append returned Ok (the caller retried on the same writer)
                match apache_avro::Reader::new(&sink.data[..]) {
                    Ok(rd) => match rd.collect::<Result<Vec<Value>, _>>() { Ok(vs) if vs == appended_faulty => {}, other => return Ok(Some(format!("after a sink failure and retries the file reads back as {other:?}, appended Ok: {appended_faulty:?}"))) },
                    Err(e) => return Ok(Some(format!("after a sink failure at call {:?} and successful retries the file cannot be opened: {e} ({} bytes in the sink)", fail_at, sink.data.len()))),
                }
            }
            if all_ok && sink.data != good { return Ok(Some(format!("every call returned Ok but the sink holds {} bytes, an in-memory buffer holds {}", sink.data.len(), good.len()))); }
            // read back the in-memory file: exactly the successfully appended values
            match apache_avro::Reader::new(&good[..]) {
                Ok(rd) => { let got: Result<Vec<Value>, _> = rd.collect();
                    match got { Ok(vs) if vs == appended_good => Ok(None), other => Ok(Some(format!("file reads back as {other:?}, appended Ok: {appended_good:?}"))) } }
                Err(e) => Ok(Some(format!("file cannot be opened: {e}"))),
            }
        }
        // C13/C03: a sink error during a flush is REPORTED, and the values stay pending: once the sink works again a later flush (or
        // into_inner / drop) delivers them, and values appended in between join them — nothing is lost, duplicated or reordered.
        // The failing call is the FIRST write call of the block (nothing of the block has been accepted, so the retry is clean);
        // every codec, with the retry as flush / append+flush / into_inner / drop.
        "container_flush_retry" => {
            let schema = Schema::parse_str("\"long\"").map_err(|e| e.to_string())?;
            for codec_name in ["null", "deflate", "snappy", "zstandard", "bzip2", "xz"] {
                for finish in ["flush", "append+flush", "into_inner", "drop"] {
                    // header length = number of sink calls the header takes with accept = MAX: measured on a healthy sink
                    let mut probe_sink = FaultySink { data: Vec::new(), accept: usize::MAX, fail_at: None, calls: 0 };
                    { let mut w = apache_avro::Writer::builder().schema(&schema).writer(&mut probe_sink).codec(parse_codec(codec_name)).marker([6u8; 16]).build().map_err(|e| e.to_string())?;
                      w.append_value_ref(&Value::Long(1)).map_err(|e| e.to_string())?; }
                    // calls made for "header" by the first append = calls before the block; the writer was dropped, so subtract the block's
                    let mut hdr_sink = FaultySink { data: Vec::new(), accept: usize::MAX, fail_at: None, calls: 0 };
                    let hdr_calls = { let mut w = apache_avro::Writer::builder().schema(&schema).writer(&mut hdr_sink).codec(parse_codec(codec_name)).marker([6u8; 16]).build().map_err(|e| e.to_string())?;
                      w.flush().map_err(|e| e.to_string())?; let c = w.get_ref().calls; std::mem::forget(w); c };
                    let mut sink = FaultySink { data: Vec::new(), accept: usize::MAX, fail_at: Some(hdr_calls), calls: 0 };
                    let mut expect = vec![Value::Long(10), Value::Long(-20), Value::Long(30)];
                    let mut w = apache_avro::Writer::builder().schema(&schema).writer(&mut sink).codec(parse_codec(codec_name)).marker([6u8; 16]).build().map_err(|e| e.to_string())?;
                    w.flush().map_err(|e| format!("header flush: {e}"))?;
                    for v in &expect { w.append_value_ref(v).map_err(|e| e.to_string())?; }
                    if w.flush().is_ok() { return Ok(Some(format!("codec {codec_name}: the flush whose first block write fails returned Ok"))); }
                    match finish {
                        "flush" => { w.flush().map_err(|e| format!("retry: {e}"))?; drop(w); }
                        "append+flush" => { w.append_value_ref(&Value::Long(44)).map_err(|e| e.to_string())?; expect.push(Value::Long(44)); w.flush().map_err(|e| format!("retry: {e}"))?; drop(w); }
                        "into_inner" => { w.into_inner().map_err(|e| format!("into_inner: {e}"))?; }
                        _ => drop(w),
                    }
                    match apache_avro::Reader::new(&sink.data[..]).map_err(|e| e.to_string()).and_then(|rd| rd.collect::<Result<Vec<Value>, _>>().map_err(|e| e.to_string())) {
                        Ok(vs) if vs == expect => {}
                        other => return Ok(Some(format!("codec {codec_name}, finish by {finish}: the flush failed once (reported), then every call returned Ok; the file reads back as {other:?}, appended {expect:?}"))),
                    }
                }
            }
            Ok(None)
        }
        // C14: a file of `blocks` (each a list of hex datums under `schema`) cut at `cut` (or at every offset if absent):
        // values delivered = values of the blocks wholly before the cut; an error unless the cut is a block boundary
        // (or inside/at the header: opening fails).  With `flip` = byte offset, that byte is inverted instead.
        "container_cut" => {
            let schema = Schema::parse_str(sc["schema"].as_str().ok_or("schema")?).map_err(|e| e.to_string())?;
            let blocks: Vec<Vec<Vec<u8>>> = sc["blocks"].as_array().ok_or("blocks")?.iter().map(|b| b.as_array().unwrap().iter().map(|d| crate::hex(d.as_str().unwrap())).collect()).collect();
            let mut file = Vec::new();
            let mut boundaries = Vec::new(); // (offset after block i, values so far)
            let mut all: Vec<Value> = Vec::new();
            {
                let mut w = apache_avro::Writer::builder().schema(&schema).writer(&mut file).marker([7u8; 16]).build().map_err(|e| e.to_string())?;
                w.flush().map_err(|e| e.to_string())?;
                let hdr_len = w.get_ref().len();
                boundaries.push((hdr_len, 0usize));
                for b in &blocks {
                    for d in b { let v = apache_avro::from_avro_datum(&schema, &mut &d[..], None).map_err(|e| e.to_string())?; w.append_value_ref(&v).map_err(|e| e.to_string())?; all.push(v); }
                    w.flush().map_err(|e| e.to_string())?;
                    boundaries.push((w.get_ref().len(), all.len()));
                }
            }
            let check = |data: &[u8], expect_vals: usize, expect_err: bool, open_fails: bool, what: String| -> Option<String> {
                match apache_avro::Reader::new(data) {
                    Err(_) => if open_fails { None } else { Some(format!("{what}: opening failed unexpectedly")) },
                    Ok(rd) => {
                        if open_fails { return Some(format!("{what}: opening succeeded although the header is incomplete")); }
                        let mut vals = Vec::new(); let mut err = false;
                        for it in rd { match it { Ok(v) => vals.push(v), Err(_) => { err = true; } } }
                        if vals.len() != expect_vals || vals[..] != all[..expect_vals.min(all.len())] { return Some(format!("{what}: delivered {} values, expected exactly the first {expect_vals}", vals.len())); }
                        if err != expect_err { return Some(format!("{what}: error reported = {err}, expected {expect_err}")); }
                        None
                    }
                }
            };
            // `flip` = absolute offset, or `flip_block` i (+ `flip_byte` j): byte j of the sync marker that ends block i
            let flip = sc.get("flip").and_then(|x| x.as_u64()).map(|x| x as usize).or_else(|| sc.get("flip_block").and_then(|x| x.as_u64()).map(|i| boundaries[i as usize + 1].0 - 16 + sc["flip_byte"].as_u64().unwrap_or(0) as usize));
            if let Some(off) = flip { let mut d = file.clone(); d[off] ^= 0xff;
                // find the block whose marker contains `off`
                let bi = boundaries.iter().position(|(e, _)| off < *e).unwrap_or(0);
                let vals_before = if bi == 0 { 0 } else { boundaries[bi - 1].1 };
                return Ok(check(&d, vals_before, true, bi == 0, format!("flip byte {off}")));
            }
            let cuts: Vec<usize> = match sc.get("cut").and_then(|x| x.as_u64()) { Some(c) => vec![c as usize], None => (0..=file.len()).collect() };
            for c in cuts {
                let hdr_len = boundaries[0].0;
                let open_fails = c < hdr_len;
                let (vals, on_boundary) = { let mut v = 0; let mut ob = false; for (e, n) in &boundaries { if *e <= c { v = *n; } if *e == c { ob = true; } } (v, ob) };
                if let Some(m) = check(&file[..c], vals, !on_boundary, open_fails, format!("cut at {c} of {}", file.len())) { return Ok(Some(m)); }
            }
            Ok(None)
        }
        // C02/C16: serde block writers. `value` (JSON) is serialized under `schema` with `target_block_size`; the bytes
        // must decode with the generic decoder as exactly one datum, consume all bytes, and every array keeps its length;
        // the returned count must equal the bytes emitted.
        "serde_blocks" => {
            let schema = Schema::parse_str(sc["schema"].as_str().ok_or("schema")?).map_err(|e| e.to_string())?;
            let value = sc["value"].clone();
            let w = match sc["target_block_size"].as_u64() {
                Some(t) => apache_avro::writer::datum::GenericDatumWriter::builder(&schema).target_block_size(t as usize).build(),
                None => apache_avro::writer::datum::GenericDatumWriter::builder(&schema).build(),
            }.map_err(|e| e.to_string())?;
            let mut out = Vec::new();
            // JSON integers are handed to the serializer as i64 (serde_json would say u64 for non-negative ones, which the
            // schema-aware serializer maps to a dedicated fixed type, not to `long`)
            struct AsI64<'a>(&'a J);
            impl<'a> serde::Serialize for AsI64<'a> {
                fn serialize<S: serde::Serializer>(&self, s: S) -> Result<S::Ok, S::Error> {
                    use serde::ser::{SerializeMap, SerializeSeq};
                    match self.0 {
                        J::Null => s.serialize_unit(),
                        J::Bool(b) => s.serialize_bool(*b),
                        J::Number(n) => match n.as_i64() { Some(i) => s.serialize_i64(i), None => s.serialize_f64(n.as_f64().unwrap_or(0.0)) },
                        J::String(t) => s.serialize_str(t),
                        J::Array(a) => { let mut q = s.serialize_seq(Some(a.len()))?; for x in a { q.serialize_element(&AsI64(x))?; } q.end() }
                        J::Object(o) => { let mut q = s.serialize_map(Some(o.len()))?; for (k, x) in o { q.serialize_entry(k, &AsI64(x))?; } q.end() }
                    }
                }
            }
            let n = w.write_ser(&mut out, &AsI64(&value)).map_err(|e| e.to_string())?;
            if n != out.len() { return Ok(Some(format!("write_ser returned {n} but emitted {} bytes {:02x?}", out.len(), out))); }
            let mut rd = &out[..];
            match apache_avro::from_avro_datum(&schema, &mut rd, None) {
                Ok(v) => {
                    if !rd.is_empty() { return Ok(Some(format!("generic decoder left {} bytes of {:02x?}", rd.len(), out))); }
                    fn count(j: &J, v: &Value) -> Option<String> {
                        match (j, v) {
                            (J::Array(a), Value::Array(b)) => { if a.len() != b.len() { return Some(format!("array of {} items decodes to {} items", a.len(), b.len())); } a.iter().zip(b).find_map(|(x, y)| count(x, y)) }
                            (J::Object(a), Value::Record(b)) => a.values().zip(b.iter()).find_map(|(x, (_, y))| count(x, y)),
                            (J::Object(a), Value::Map(b)) => if a.len() != b.len() { Some(format!("map of {} entries decodes to {}", a.len(), b.len())) } else { a.iter().find_map(|(k, x)| match b.get(k) { Some(y) => count(x, y), None => Some(format!("map entry {k:?} is missing after decoding")) }) },
                            (J::Number(n), Value::Long(l)) => if n.as_i64() != Some(*l) { Some(format!("long {n} decodes to {l}")) } else { None },
                            (J::Number(n), Value::Int(l)) => if n.as_i64() != Some(*l as i64) { Some(format!("int {n} decodes to {l}")) } else { None },
                            (J::String(t), Value::String(u)) => if t != u { Some(format!("string {t:?} decodes to {u:?}")) } else { None },
                            _ => None,
                        }
                    }
                    Ok(count(&value, &v).map(|m| format!("{m}; bytes {:02x?}", out)))
                }
                Err(e) => Ok(Some(format!("generic decoder rejects the serde bytes {:02x?}: {e}", out))),
            }
        }
        // C08: value (datum under writer schema) resolved against reader schema: Ok(v) must validate against the reader
        // schema and resolving again must change nothing
        "resolve_validates" => {
            let ws = Schema::parse_str(sc["writer"].as_str().ok_or("writer")?).map_err(|e| e.to_string())?;
            let rs = Schema::parse_str(sc["reader"].as_str().ok_or("reader")?).map_err(|e| e.to_string())?;
            let bytes = jhex(sc, "datum");
            let value = apache_avro::from_avro_datum(&ws, &mut &bytes[..], None).map_err(|e| e.to_string())?;
            match value.clone().resolve(&rs) {
                Ok(v) => {
                    if !v.validate(&rs) { return Ok(Some(format!("resolve({value:?}) = Ok({v:?}) which does not validate against the reader schema"))); }
                    match v.clone().resolve(&rs) { Ok(v2) if v2 == v => Ok(None), other => Ok(Some(format!("resolving the resolved value changes it: {other:?}"))) }
                }
                Err(_) => Ok(None),
            }
        }
        // C13: serde path straight to a faulty sink (short writes / injected error): exact bytes or an error
        "serde_faulty_sink" => {
            let schema = Schema::parse_str(sc["schema"].as_str().ok_or("schema")?).map_err(|e| e.to_string())?;
            let value = sc["value"].clone();
            let accept = sc["accept"].as_u64().map(|x| x as usize).unwrap_or(1);
            let fail_at = sc["fail_at"].as_u64().map(|x| x as usize);
            let w = apache_avro::writer::datum::GenericDatumWriter::builder(&schema).build().map_err(|e| e.to_string())?;
            let mut good = Vec::new();
            let n_good = w.write_ser(&mut good, &value).map_err(|e| e.to_string())?;
            let mut sink = FaultySink { data: Vec::new(), accept, fail_at, calls: 0 };
            match w.write_ser(&mut sink, &value) {
                Ok(n) => if sink.data != good || n != n_good { Ok(Some(format!("write_ser returned Ok({n}) but the sink holds {} bytes, an in-memory buffer holds {} ({n_good} reported)", sink.data.len(), good.len()))) } else { Ok(None) },
                Err(_) => Ok(None),
            }
        }
        // C13 (and C01/C02/C16 through it): the property's own quantifier as a sweep — corpus of (schema, value) x datum write
        // path (generic write_value_ref, serde write_ser with target_block_size None / Some(0) / Some(32)) x accepted length
        // per call (1, 2, 3, 7, all) x an injected error or an ErrorKind::Interrupted at EACH sink call index.
        // Ok(n) must mean: the sink holds exactly the bytes an in-memory buffer gets, and n is their number.
        "faulty_sink_matrix" => {
            use std::collections::BTreeMap;
            #[derive(serde::Serialize)] struct R { tag: String, count: i64, items: Vec<i32> }
            // serde field order differs from the schema order [zz, yy, xx, ww]: yy and xx arrive before zz and are cached
            #[derive(serde::Serialize)] struct Q { yy: String, xx: String, zz: i64, ww: i64 }
            #[derive(serde::Serialize)] struct Q2 { ww: i64, xx: String, yy: String, zz: i64 }
            let only: Option<usize> = sc["only"].as_u64().map(|x| x as usize);
            let mut ci = 0usize;
            // every item carries the Value it must be written as — built by hand here, so the expectation does not come from the
            // library's serde path
            let rec = |fs: Vec<(&str, Value)>| Value::Record(fs.into_iter().map(|(k, v)| (k.to_string(), v)).collect());
            let strs = |v: &[&str]| Value::Array(v.iter().map(|x| Value::String(x.to_string())).collect());
            macro_rules! item { ($st:expr, $v:expr, $e:expr) => {{
                if only.is_none() || only == Some(ci) { if let Some(m) = matrix_item($st, &$v, $e)? { return Ok(Some(m)); } }
                ci += 1;
            }}; }
            item!("\"long\"", 300i64, Value::Long(300));
            item!("\"long\"", -70000i64, Value::Long(-70000));
            item!("\"long\"", i64::MAX, Value::Long(i64::MAX));
            item!("\"int\"", i32::MIN, Value::Int(i32::MIN));
            item!("\"string\"", "s".repeat(200), Value::String("s".repeat(200)));
            item!("\"double\"", 1.5f64, Value::Double(1.5));
            item!("{\"type\":\"array\",\"items\":\"string\"}", vec!["alpha", "beta", "gamma", "delta", "epsilon", "zeta", "eta", "theta", "iota", "kappa", "lambda", "mu", "nu", "xi", "omicron", "pi", "rho", "sigma", "tau", "upsilon"], strs(&["alpha", "beta", "gamma", "delta", "epsilon", "zeta", "eta", "theta", "iota", "kappa", "lambda", "mu", "nu", "xi", "omicron", "pi", "rho", "sigma", "tau", "upsilon"]));
            item!("{\"type\":\"array\",\"items\":\"long\"}", vec![1i64, -70000, 2147483647, 300, 64, -65], Value::Array([1i64, -70000, 2147483647, 300, 64, -65].iter().map(|x| Value::Long(*x)).collect()));
            item!("{\"type\":\"array\",\"items\":\"null\"}", vec![(), (), ()], Value::Array(vec![Value::Null, Value::Null, Value::Null]));
            // blocks of 65..127 and of more than 128 items (one- and two-byte block counts)
            for n in [64usize, 65, 100, 127, 128, 300] {
                item!("{\"type\":\"array\",\"items\":\"int\"}", (0..n as i32).collect::<Vec<i32>>(), Value::Array((0..n as i32).map(Value::Int).collect()));
            }
            item!("{\"type\":\"map\",\"values\":\"int\"}", (0..70).map(|i| (format!("k{i:03}"), i)).collect::<BTreeMap<String, i32>>(), Value::Map((0..70).map(|i| (format!("k{i:03}"), Value::Int(i))).collect()));
            item!("{\"type\":\"map\",\"values\":\"long\"}", [("a", 1i64), ("bb", 300), ("ccc", -70000), ("dddd", 5), ("eeeee", 6), ("ffffff", 7), ("g", 8), ("hh", 9)].into_iter().map(|(k, v)| (k.to_string(), v)).collect::<BTreeMap<String, i64>>(),
                Value::Map([("a", 1i64), ("bb", 300), ("ccc", -70000), ("dddd", 5), ("eeeee", 6), ("ffffff", 7), ("g", 8), ("hh", 9)].into_iter().map(|(k, v)| (k.to_string(), Value::Long(v))).collect()));
            item!("{\"type\":\"map\",\"values\":\"string\"}", (0..12).map(|i| (format!("key{i:02}"), format!("value-{i}"))).collect::<BTreeMap<String, String>>(),
                Value::Map((0..12).map(|i| (format!("key{i:02}"), Value::String(format!("value-{i}")))).collect()));
            item!("{\"type\":\"record\",\"name\":\"r\",\"fields\":[{\"name\":\"tag\",\"type\":\"string\"},{\"name\":\"count\",\"type\":\"long\"},{\"name\":\"items\",\"type\":{\"type\":\"array\",\"items\":\"int\"}}]}",
                R { tag: "abcdef".into(), count: 300, items: vec![1, -70000, i32::MAX] },
                rec(vec![("tag", Value::String("abcdef".into())), ("count", Value::Long(300)), ("items", Value::Array(vec![Value::Int(1), Value::Int(-70000), Value::Int(i32::MAX)]))]));
            item!("{\"type\":\"record\",\"name\":\"q\",\"fields\":[{\"name\":\"zz\",\"type\":\"long\",\"default\":7},{\"name\":\"yy\",\"type\":\"string\",\"default\":\"d\"},{\"name\":\"xx\",\"type\":\"string\",\"default\":\"e\"},{\"name\":\"ww\",\"type\":\"long\",\"default\":9}]}",
                Q { yy: "there".into(), xx: "hi".into(), zz: 300, ww: 42 },
                rec(vec![("zz", Value::Long(300)), ("yy", Value::String("there".into())), ("xx", Value::String("hi".into())), ("ww", Value::Long(42))]));
            item!("{\"type\":\"record\",\"name\":\"q\",\"fields\":[{\"name\":\"zz\",\"type\":\"long\",\"default\":7},{\"name\":\"yy\",\"type\":\"string\",\"default\":\"d\"},{\"name\":\"xx\",\"type\":\"string\",\"default\":\"e\"},{\"name\":\"ww\",\"type\":\"long\",\"default\":9}]}",
                Q2 { ww: 42, xx: "hi".into(), yy: "there".into(), zz: 300 },
                rec(vec![("zz", Value::Long(300)), ("yy", Value::String("there".into())), ("xx", Value::String("hi".into())), ("ww", Value::Long(42))]));
            item!("[\"null\",\"double\"]", Some(2.25f64), Value::Union(1, Box::new(Value::Double(2.25))));
            // chars (serde `serialize_char`): one to four UTF-8 bytes behind a length
            item!("\"string\"", 'B', Value::String("B".into()));
            item!("\"string\"", 'é', Value::String("é".into()));
            item!("\"string\"", '😀', Value::String("😀".into()));
            #[derive(serde::Serialize)] struct WithChar { id: i64, letter: char, note: String }
            item!("{\"type\":\"record\",\"name\":\"wc\",\"fields\":[{\"name\":\"id\",\"type\":\"long\"},{\"name\":\"letter\",\"type\":\"string\"},{\"name\":\"note\",\"type\":\"string\"}]}",
                WithChar { id: 300, letter: '€', note: "good".into() }, rec(vec![("id", Value::Long(300)), ("letter", Value::String("€".into())), ("note", Value::String("good".into()))]));
            // a map value (serde `serialize_map`, as produced by `#[serde(flatten)]` and by HashMap/BTreeMap) under a RECORD schema
            item!("{\"type\":\"record\",\"name\":\"m\",\"fields\":[{\"name\":\"a\",\"type\":\"int\"},{\"name\":\"b\",\"type\":\"int\"},{\"name\":\"c\",\"type\":\"int\"}]}",
                [("a", 1i32), ("b", 300), ("c", -70000)].into_iter().map(|(k, v)| (k.to_string(), v)).collect::<BTreeMap<String, i32>>(),
                rec(vec![("a", Value::Int(1)), ("b", Value::Int(300)), ("c", Value::Int(-70000))]));
            let _ = ci;
            Ok(None)
        }
        // C16: the serde data model against hand-built expectations — for each (Rust value, schema, expected Value): the bytes
        // write_ser produces are exactly the generic encoder's bytes for the expected Value (and the count is their number), and
        // read_deser of those bytes gives the Rust value back. Options with null first and last, unit, unit-variant enums, tuples,
        // newtypes, nested structs with sequences / options / maps, byte buffers under bytes and fixed, chars, every integer width,
        // a flattened struct (serde map under a record schema).
        "serde_model_matrix" => {
            use std::collections::BTreeMap;
            #[derive(serde::Serialize, serde::Deserialize, PartialEq, Debug, Clone)] enum Suit { Spades, Hearts, Diamonds, Clubs }
            #[derive(serde::Serialize, serde::Deserialize, PartialEq, Debug, Clone)] struct Meters(f64);
            #[derive(serde::Serialize, serde::Deserialize, PartialEq, Debug, Clone)] struct Inner { b: i32, c: String }
            #[derive(serde::Serialize, serde::Deserialize, PartialEq, Debug, Clone)] struct Outer { id: i64, tags: Vec<String>, note: Option<String>, inner: Inner, counts: BTreeMap<String, i64>, suit: Suit, ok: bool }
            #[derive(serde::Serialize, serde::Deserialize, PartialEq, Debug, Clone)] struct Flat { a: i32, #[serde(flatten)] inner: Inner }
            #[derive(serde::Serialize, serde::Deserialize, PartialEq, Debug, Clone)] struct Widths { a: i8, b: i16, c: i32, d: i64, e: u8, f: u16, g: u32, h: f32, i: f64, j: char }
            let rec = |fs: Vec<(&str, Value)>| Value::Record(fs.into_iter().map(|(k, v)| (k.to_string(), v)).collect());
            let suit_schema = "{\"type\":\"enum\",\"name\":\"Suit\",\"symbols\":[\"Spades\",\"Hearts\",\"Diamonds\",\"Clubs\"]}";
            let inner_schema = "{\"type\":\"record\",\"name\":\"Inner\",\"fields\":[{\"name\":\"b\",\"type\":\"int\"},{\"name\":\"c\",\"type\":\"string\"}]}";
            macro_rules! item { ($st:expr, $v:expr, $e:expr) => {{ if let Some(m) = model_item($st, &$v, $e)? { return Ok(Some(m)); } }}; }
            item!("[\"null\",\"int\"]", Some(5i32), Value::Union(1, Box::new(Value::Int(5))));
            item!("[\"null\",\"int\"]", None::<i32>, Value::Union(0, Box::new(Value::Null)));
            item!("[\"string\",\"null\"]", Some("x".to_string()), Value::Union(0, Box::new(Value::String("x".into()))));
            item!("[\"string\",\"null\"]", None::<String>, Value::Union(1, Box::new(Value::Null)));
            item!("\"null\"", (), Value::Null);
            item!(suit_schema, Suit::Hearts, Value::Enum(1, "Hearts".into()));
            item!(suit_schema, Suit::Clubs, Value::Enum(3, "Clubs".into()));
            item!("{\"type\":\"record\",\"name\":\"t\",\"fields\":[{\"name\":\"f0\",\"type\":\"int\"},{\"name\":\"f1\",\"type\":\"string\"}]}", (7i32, "seven".to_string()), rec(vec![("f0", Value::Int(7)), ("f1", Value::String("seven".into()))]));
            item!("{\"type\":\"record\",\"name\":\"Meters\",\"fields\":[{\"name\":\"value\",\"type\":\"double\"}]}", Meters(2.5), rec(vec![("value", Value::Double(2.5))]));
            item!("\"bytes\"", serde_bytes::ByteBuf::from(vec![0u8, 255, 128]), Value::Bytes(vec![0, 255, 128]));
            item!("{\"type\":\"fixed\",\"name\":\"f3\",\"size\":3}", serde_bytes::ByteBuf::from(vec![9u8, 8, 7]), Value::Fixed(3, vec![9, 8, 7]));
            item!("\"string\"", 'é', Value::String("é".into()));
            item!(&format!("{{\"type\":\"record\",\"name\":\"Outer\",\"fields\":[{{\"name\":\"id\",\"type\":\"long\"}},{{\"name\":\"tags\",\"type\":{{\"type\":\"array\",\"items\":\"string\"}}}},{{\"name\":\"note\",\"type\":[\"null\",\"string\"]}},{{\"name\":\"inner\",\"type\":{inner_schema}}},{{\"name\":\"counts\",\"type\":{{\"type\":\"map\",\"values\":\"long\"}}}},{{\"name\":\"suit\",\"type\":{suit_schema}}},{{\"name\":\"ok\",\"type\":\"boolean\"}}]}}"),
                Outer { id: -70000, tags: vec!["a".into(), "".into(), "ccc".into()], note: Some("n".into()), inner: Inner { b: 300, c: "z".into() }, counts: [("k".to_string(), 1i64)].into_iter().collect(), suit: Suit::Diamonds, ok: true },
                rec(vec![("id", Value::Long(-70000)), ("tags", Value::Array(vec![Value::String("a".into()), Value::String("".into()), Value::String("ccc".into())])), ("note", Value::Union(1, Box::new(Value::String("n".into())))),
                    ("inner", rec(vec![("b", Value::Int(300)), ("c", Value::String("z".into()))])), ("counts", Value::Map([("k".to_string(), Value::Long(1))].into_iter().collect())), ("suit", Value::Enum(2, "Diamonds".into())), ("ok", Value::Boolean(true))]));
            item!("{\"type\":\"record\",\"name\":\"Flat\",\"fields\":[{\"name\":\"a\",\"type\":\"int\"},{\"name\":\"b\",\"type\":\"int\"},{\"name\":\"c\",\"type\":\"string\"}]}",
                Flat { a: 1, inner: Inner { b: 300, c: "q".into() } }, rec(vec![("a", Value::Int(1)), ("b", Value::Int(300)), ("c", Value::String("q".into()))]));
            item!("{\"type\":\"record\",\"name\":\"Widths\",\"fields\":[{\"name\":\"a\",\"type\":\"int\"},{\"name\":\"b\",\"type\":\"int\"},{\"name\":\"c\",\"type\":\"int\"},{\"name\":\"d\",\"type\":\"long\"},{\"name\":\"e\",\"type\":\"int\"},{\"name\":\"f\",\"type\":\"int\"},{\"name\":\"g\",\"type\":\"long\"},{\"name\":\"h\",\"type\":\"float\"},{\"name\":\"i\",\"type\":\"double\"},{\"name\":\"j\",\"type\":\"string\"}]}",
                Widths { a: i8::MIN, b: i16::MAX, c: i32::MIN, d: i64::MAX, e: u8::MAX, f: u16::MAX, g: u32::MAX, h: -0.0, i: f64::MIN_POSITIVE, j: 'x' },
                rec(vec![("a", Value::Int(-128)), ("b", Value::Int(32767)), ("c", Value::Int(i32::MIN)), ("d", Value::Long(i64::MAX)), ("e", Value::Int(255)), ("f", Value::Int(65535)), ("g", Value::Long(u32::MAX as i64)), ("h", Value::Float(-0.0)), ("i", Value::Double(f64::MIN_POSITIVE)), ("j", Value::String("x".into()))]));
            item!("{\"type\":\"array\",\"items\":[\"null\",\"long\"]}", vec![Some(1i64), None, Some(-1)], Value::Array(vec![Value::Union(1, Box::new(Value::Long(1))), Value::Union(0, Box::new(Value::Null)), Value::Union(1, Box::new(Value::Long(-1)))]));
            Ok(None)
        }
        // C06/C05/C14: systematic truncation sweep over a built-in corpus of (schema, value) pairs — every proper prefix of a
        // canonical encoding must be rejected or decode to a value whose re-encoding is exactly the consumed bytes;
        // payload lengths straddle 2^7, 2^14, 2^16 (+1) so size-dependent code paths are exercised.
        "truncation_sweep" => {
            let seed = sc["seed"].as_u64().unwrap_or(0);
            let mut corpus: Vec<(String, Value)> = Vec::new();
            for n in [0usize, 1, 63, 64, 127, 128, 8191, 8192, 16383, 16384, 65535, 65536, 65537, 70000, 131073] {
                corpus.push(("\"bytes\"".into(), Value::Bytes((0..n).map(|i| (i as u64 * 31 + seed) as u8).collect())));
                corpus.push(("\"string\"".into(), Value::String((0..n).map(|i| (b'a' + ((i as u64 + seed) % 26) as u8) as char).collect())));
            }
            corpus.push(("{\"type\":\"array\",\"items\":\"long\"}".into(), Value::Array((0..300).map(|i| Value::Long(i * 77 - 5000)).collect())));
            corpus.push(("{\"type\":\"array\",\"items\":\"string\"}".into(), Value::Array(vec![Value::String("x".repeat(70000)), Value::String("yz".into())])));
            corpus.push(("{\"type\":\"map\",\"values\":\"bytes\"}".into(), Value::Map([("k".to_string(), Value::Bytes(vec![7; 66000]))].into_iter().collect())));
            corpus.push(("[\"null\",\"string\",\"long\"]".into(), Value::Union(1, Box::new(Value::String("q".repeat(300))))));
            corpus.push(("{\"type\":\"record\",\"name\":\"r\",\"fields\":[{\"name\":\"a\",\"type\":\"long\"},{\"name\":\"b\",\"type\":\"bytes\"},{\"name\":\"c\",\"type\":\"double\"}]}".into(),
                Value::Record(vec![("a".into(), Value::Long(i64::MIN)), ("b".into(), Value::Bytes(vec![1; 65600])), ("c".into(), Value::Double(1.5))])));
            corpus.push(("{\"type\":\"record\",\"name\":\"o\",\"fields\":[{\"name\":\"id\",\"type\":\"long\"},{\"name\":\"name\",\"type\":\"string\"},{\"name\":\"note\",\"type\":[\"null\",\"string\"]},{\"name\":\"flag\",\"type\":[\"null\",\"boolean\"]}]}".into(),
                Value::Record(vec![("id".into(), Value::Long(7)), ("name".into(), Value::String("abc".into())), ("note".into(), Value::Union(1, Box::new(Value::String("n".into())))), ("flag".into(), Value::Union(1, Box::new(Value::Boolean(true))))])));
            corpus.push(("[\"null\",\"long\"]".into(), Value::Union(1, Box::new(Value::Long(300)))));
            // fixed-width payloads at the END of a datum (nothing after them can fail and hide a short read)
            corpus.push(("{\"type\":\"fixed\",\"name\":\"f4\",\"size\":4}".into(), Value::Fixed(4, vec![0xDE, 0xAD, 0xBE, 0xEF])));
            corpus.push(("{\"type\":\"record\",\"name\":\"rf\",\"fields\":[{\"name\":\"id\",\"type\":\"long\"},{\"name\":\"digest\",\"type\":{\"type\":\"fixed\",\"name\":\"f4\",\"size\":4}}]}".into(),
                Value::Record(vec![("id".into(), Value::Long(7)), ("digest".into(), Value::Fixed(4, vec![0xDE, 0xAD, 0xBE, 0xEF]))])));
            corpus.push(("{\"type\":\"fixed\",\"name\":\"dd\",\"size\":12,\"logicalType\":\"duration\"}".into(), Value::Duration(apache_avro::Duration::new(apache_avro::Months::new(1), apache_avro::Days::new(2), apache_avro::Millis::new(3)))));
            corpus.push(("{\"type\":\"fixed\",\"name\":\"df\",\"size\":6,\"logicalType\":\"decimal\",\"precision\":10,\"scale\":2}".into(), Value::Decimal(apache_avro::Decimal::from(vec![0xFF, 0xFF, 0xFF, 0x80, 0x00, 0x01]))));
            corpus.push(("{\"type\":\"fixed\",\"name\":\"uf\",\"size\":16,\"logicalType\":\"uuid\"}".into(), Value::Uuid(apache_avro::Uuid::from_u128(0x0123456789abcdef0123456789abcdef))));
            corpus.push(("\"float\"".into(), Value::Float(1.5))); corpus.push(("\"double\"".into(), Value::Double(-2.25)));
            corpus.push(("{\"type\":\"array\",\"items\":{\"type\":\"fixed\",\"name\":\"f3\",\"size\":3}}".into(), Value::Array(vec![Value::Fixed(3, vec![1, 2, 3]), Value::Fixed(3, vec![4, 5, 6])])));
            corpus.push(("{\"type\":\"map\",\"values\":[\"null\",\"long\"]}".into(), Value::Map([("k".to_string(), Value::Union(0, Box::new(Value::Null)))].into_iter().collect())));
            for (st, v) in corpus {
                let schema = Schema::parse_str(&st).map_err(|e| e.to_string())?;
                let full = apache_avro::to_avro_datum(&schema, v.clone()).map_err(|e| e.to_string())?;
                let mut cuts: Vec<usize> = (0..full.len().min(40)).collect();
                let mut x = seed.wrapping_mul(6364136223846793005).wrapping_add(1442695040888963407);
                for _ in 0..40 { x = x.wrapping_mul(6364136223846793005).wrapping_add(1442695040888963407); if full.len() > 1 { cuts.push((x >> 33) as usize % full.len()); } }
                if full.len() > 2 { cuts.push(full.len() - 1); cuts.push(full.len() / 2); }
                for c in cuts {
                    if c >= full.len() { continue; }
                    let mut rd = &full[..c];
                    if let Ok(got) = apache_avro::from_avro_datum(&schema, &mut rd, None) {
                        let consumed = c - rd.len();
                        if let Some(m) = value_ill_formed(&got) { return Ok(Some(format!("schema {st}: the encoding ({} bytes) cut at {c} decodes Ok to an ill-formed value: {m}", full.len()))); }
                        let re = apache_avro::to_avro_datum(&schema, got.clone()).unwrap_or_default();
                        if got == v || re[..] != full[..consumed] {
                            return Ok(Some(format!("schema {st}: the encoding ({} bytes) cut at {c} decodes Ok to a value that re-encodes to {} bytes (consumed {consumed})", full.len(), re.len())));
                        }
                    }
                }
                // and the full encoding round-trips, consuming everything
                let mut rd = &full[..];
                match apache_avro::from_avro_datum(&schema, &mut rd, None) { Ok(got) if got == v && rd.is_empty() => {}, other => return Ok(Some(format!("schema {st}: full encoding does not round-trip: {:?}", other.map(|_| "different value / leftover")))) }
            }
            Ok(None)
        }
        // C07: validate(value, schema) accepts => every validating writer encodes it and the bytes decode to the canonical
        // form of the value; validate rejects => the write fails and no byte reaches the output
        "validate_write" => {
            let schema = Schema::parse_str(sc["schema"].as_str().ok_or("schema")?).map_err(|e| e.to_string())?;
            let value = crate::dsl(&sc["value"])?;
            validate_write_check(&schema, &value)
        }
        // C07: the same check as a sweep over value FORMS that validation accepts for one schema: record fields in every
        // order, with a field given under its schema name or its alias, top-level and inside a union; numeric promotions;
        // string for enum; logical types over their base representations. (The forms recorded as known findings D8b-e are
        // not generated.)
        "validate_write_sweep" => {
            let rec_schema = "{\"type\":\"record\",\"name\":\"trip\",\"fields\":[{\"name\":\"name\",\"type\":\"string\"},{\"name\":\"date\",\"type\":\"long\",\"aliases\":[\"time\",\"when\"]},{\"name\":\"seats\",\"type\":\"int\"}]}";
            let schema = Schema::parse_str(rec_schema).map_err(|e| e.to_string())?;
            let uschema = Schema::parse_str(&format!("[\"null\",{rec_schema}]")).map_err(|e| e.to_string())?;
            let perms: [[usize; 3]; 6] = [[0, 1, 2], [0, 2, 1], [1, 0, 2], [1, 2, 0], [2, 0, 1], [2, 1, 0]];
            for perm in perms {
                for date_key in ["date", "time", "when"] {
                    let fields = [("name", Value::String("abc".into())), (date_key, Value::Long(1_700_000_000_000)), ("seats", Value::Int(3))];
                    let rec = Value::Record(perm.iter().map(|i| (fields[*i].0.to_string(), fields[*i].1.clone())).collect());
                    if let Some(m) = validate_write_check(&schema, &rec)? { return Ok(Some(format!("record form order {perm:?} key {date_key}: {m}"))); }
                    if let Some(m) = validate_write_check(&uschema, &Value::Union(1, Box::new(rec.clone())))? { return Ok(Some(format!("record-in-union form order {perm:?} key {date_key}: {m}"))); }
                }
            }
            // a bare record against a union of records whose EARLIER branch encodes some fields before it fails
            let two = "[{\"type\":\"record\",\"name\":\"Named\",\"fields\":[{\"name\":\"id\",\"type\":\"long\"},{\"name\":\"name\",\"type\":\"string\"}]},{\"type\":\"record\",\"name\":\"Priced\",\"fields\":[{\"name\":\"id\",\"type\":\"long\"},{\"name\":\"price\",\"type\":\"long\"}]},{\"type\":\"record\",\"name\":\"Tagged\",\"fields\":[{\"name\":\"id\",\"type\":\"long\"},{\"name\":\"price\",\"type\":\"long\"},{\"name\":\"tag\",\"type\":\"string\"}]}]";
            let two_schema = Schema::parse_str(two).map_err(|e| e.to_string())?;
            for rec in [Value::Record(vec![("id".into(), Value::Long(7)), ("price".into(), Value::Long(3))]),
                        Value::Record(vec![("id".into(), Value::Long(7)), ("price".into(), Value::Long(3)), ("tag".into(), Value::String("t".into()))]),
                        Value::Record(vec![("id".into(), Value::Long(7)), ("name".into(), Value::String("n".into()))])] {
                // (which branch a bare record goes to is the resolver's choice — the first branch it fits, extra value fields dropped;
                // validate_write_check compares the written bytes with that canonical form and demands exactly one datum)
                if let Some(m) = validate_write_check(&two_schema, &rec)? { return Ok(Some(format!("record in a union of records: {m}"))); }
            }
            // nullable unions with the null branch first and last, and every way of writing "no value" / "a value"
            for us in ["[\"null\",\"string\"]", "[\"string\",\"null\"]", "[\"long\",\"null\",\"string\"]"] {
                let uschema2 = Schema::parse_str(us).map_err(|e| e.to_string())?;
                let n = if let Schema::Union(u) = &uschema2 { u.variants().len() as u32 } else { 0 };
                for i in 0..n { for payload in [Value::Null, Value::String("s".into()), Value::Long(4)] {
                    let v = Value::Union(i, Box::new(payload));
                    if let Some(m) = validate_write_check(&uschema2, &v)? { return Ok(Some(format!("union {us}, value {v:?}: {m}"))); }
                    let wrapped = Schema::parse_str(&format!("{{\"type\":\"record\",\"name\":\"w\",\"fields\":[{{\"name\":\"u\",\"type\":{us}}},{{\"name\":\"after\",\"type\":\"long\"}}]}}")).map_err(|e| e.to_string())?;
                    let rv = Value::Record(vec![("u".into(), v.clone()), ("after".into(), Value::Long(9))]);
                    if let Some(m) = validate_write_check(&wrapped, &rv)? { return Ok(Some(format!("record field of union {us}, value {v:?}: {m}"))); }
                } }
            }
            let forms: Vec<(&str, Value)> = vec![
                ("\"long\"", Value::Int(-70000)), ("\"double\"", Value::Int(7)), ("\"double\"", Value::Long(1 << 40)), ("\"double\"", Value::Float(1.5)),
                ("\"float\"", Value::Int(7)), ("\"float\"", Value::Long(1 << 20)), ("\"float\"", Value::Double(2.5)),
                ("{\"type\":\"enum\",\"name\":\"e\",\"symbols\":[\"a\",\"b\",\"c\"]}", Value::String("c".into())),
                ("{\"type\":\"enum\",\"name\":\"e\",\"symbols\":[\"a\",\"b\",\"c\"]}", Value::Enum(1, "b".into())),
                ("{\"type\":\"int\",\"logicalType\":\"date\"}", Value::Int(19000)), ("{\"type\":\"int\",\"logicalType\":\"date\"}", Value::Date(19000)),
                ("{\"type\":\"long\",\"logicalType\":\"timestamp-millis\"}", Value::Long(1_700_000_000_000)), ("{\"type\":\"long\",\"logicalType\":\"timestamp-millis\"}", Value::TimestampMillis(5)),
                ("{\"type\":\"long\",\"logicalType\":\"timestamp-micros\"}", Value::Int(5)), ("{\"type\":\"long\",\"logicalType\":\"time-micros\"}", Value::TimeMicros(5)),
                ("{\"type\":\"int\",\"logicalType\":\"time-millis\"}", Value::TimeMillis(5)),
                ("{\"type\":\"string\",\"logicalType\":\"uuid\"}", Value::String("b2f1cf00-0434-013e-439a-125eb8485a5f".into())),
                ("{\"type\":\"fixed\",\"name\":\"u\",\"size\":16,\"logicalType\":\"uuid\"}", Value::Fixed(16, vec![7; 16])),
                ("{\"type\":\"fixed\",\"name\":\"d\",\"size\":12,\"logicalType\":\"duration\"}", Value::Fixed(12, vec![1; 12])),
                ("{\"type\":\"fixed\",\"name\":\"f\",\"size\":4}", Value::Bytes(vec![1, 2, 3, 4])), ("{\"type\":\"fixed\",\"name\":\"f\",\"size\":4}", Value::Fixed(4, vec![1, 2, 3, 4])),
                ("\"bytes\"", Value::Fixed(3, vec![1, 2, 3])), ("\"bytes\"", Value::String("xyz".into())), ("\"string\"", Value::Bytes(b"xyz".to_vec())),
                ("[\"long\",\"null\"]", Value::Union(1, Box::new(Value::Null))), ("[\"long\",\"null\"]", Value::Null),
                ("{\"type\":\"map\",\"values\":\"long\"}", Value::Map([("k".to_string(), Value::Int(5))].into_iter().collect())),
                ("{\"type\":\"array\",\"items\":\"double\"}", Value::Array(vec![Value::Int(1), Value::Float(2.0), Value::Double(3.0)])),
            ];
            for (st, v) in forms {
                let schema = Schema::parse_str(st).map_err(|e| format!("{st}: {e}"))?;
                if let Some(m) = validate_write_check(&schema, &v)? { return Ok(Some(format!("schema {st}: {m}"))); }
            }
            Ok(None)
        }
        // C07: the leaf matrix — every value kind (with boundary payloads) against every leaf schema: whatever validation accepts
        // the writers must write and the bytes must decode to the value's canonical form; whatever it rejects must not be written.
        // (The pair Bytes under decimal is the recorded known finding D8e and is skipped.)
        "validate_write_matrix" => {
            let schemas = ["\"null\"", "\"boolean\"", "\"int\"", "\"long\"", "\"float\"", "\"double\"", "\"bytes\"", "\"string\"",
                "{\"type\":\"fixed\",\"name\":\"f4\",\"size\":4}", "{\"type\":\"enum\",\"name\":\"e\",\"symbols\":[\"a\",\"b\"]}",
                "{\"type\":\"int\",\"logicalType\":\"date\"}", "{\"type\":\"int\",\"logicalType\":\"time-millis\"}", "{\"type\":\"long\",\"logicalType\":\"time-micros\"}",
                "{\"type\":\"long\",\"logicalType\":\"timestamp-millis\"}", "{\"type\":\"long\",\"logicalType\":\"timestamp-micros\"}", "{\"type\":\"long\",\"logicalType\":\"timestamp-nanos\"}",
                "{\"type\":\"long\",\"logicalType\":\"local-timestamp-millis\"}", "{\"type\":\"long\",\"logicalType\":\"local-timestamp-micros\"}", "{\"type\":\"long\",\"logicalType\":\"local-timestamp-nanos\"}",
                "{\"type\":\"fixed\",\"name\":\"d12\",\"size\":12,\"logicalType\":\"duration\"}", "{\"type\":\"string\",\"logicalType\":\"uuid\"}",
                "{\"type\":\"fixed\",\"name\":\"u16\",\"size\":16,\"logicalType\":\"uuid\"}", "{\"type\":\"bytes\",\"logicalType\":\"decimal\",\"precision\":20,\"scale\":2}",
                "{\"type\":\"fixed\",\"name\":\"df\",\"size\":8,\"logicalType\":\"decimal\",\"precision\":10,\"scale\":2}"];
            let big = i32::MAX as i64 + 1;
            let values: Vec<Value> = vec![Value::Null, Value::Boolean(true), Value::Int(0), Value::Int(i32::MAX), Value::Int(i32::MIN), Value::Long(0), Value::Long(big), Value::Long(i64::MIN), Value::Long(5_000_000_000),
                Value::Float(1.5), Value::Double(-2.5), Value::Bytes(vec![1, 2, 3, 4]), Value::Bytes(vec![]), Value::String("a".into()), Value::String("zz".into()), Value::String("b2f1cf00-0434-013e-439a-125eb8485a5f".into()),
                Value::Fixed(4, vec![9, 8, 7, 6]), Value::Fixed(12, vec![1; 12]), Value::Fixed(16, vec![2; 16]), Value::Fixed(8, vec![0xFF; 8]), Value::Enum(1, "b".into()), Value::Enum(5, "zz".into()),
                Value::Date(1), Value::TimeMillis(2), Value::TimeMicros(big), Value::TimestampMillis(big), Value::TimestampMicros(big), Value::TimestampNanos(big),
                Value::LocalTimestampMillis(big), Value::LocalTimestampMicros(big), Value::LocalTimestampNanos(big),
                Value::Duration(apache_avro::Duration::new(apache_avro::Months::new(1), apache_avro::Days::new(2), apache_avro::Millis::new(3))),
                Value::Uuid(apache_avro::Uuid::from_u128(7)), Value::Decimal(apache_avro::Decimal::from(vec![0x01, 0x02]))];
            for st in schemas {
                let schema = Schema::parse_str(st).map_err(|e| format!("{st}: {e}"))?;
                for v in &values {
                    if matches!(v, Value::Bytes(_)) && st.contains("decimal") { continue; }       // known finding D8e
                    if matches!(v, Value::Fixed(..)) && st.contains("decimal") { continue; }       // known finding D8f
                    if let Some(m) = validate_write_check(&schema, v)? { return Ok(Some(format!("schema {st}, value {v:?}: {m}"))); }
                }
            }
            Ok(None)
        }
        // C19: (fresh process) the allocation limit is frozen by its first use: decode something, then try to set it
        "limit_frozen_by_first_use" => {
            let schema = Schema::parse_str("\"bytes\"").map_err(|e| e.to_string())?;
            let _ = apache_avro::from_avro_datum(&schema, &mut &[8u8, 1, 2, 3, 4][..], None).map_err(|e| e.to_string())?;
            let want = apache_avro::util::DEFAULT_MAX_ALLOCATION_BYTES;
            let got = apache_avro::util::max_allocation_bytes(16);
            if got != want { return Ok(Some(format!("after a decode had used the default limit {want}, max_allocation_bytes(16) returned {got}: the limit in force changed"))); }
            // and the decoders keep applying it
            let big = { let mut v = vec![200u8, 1]; v.extend(std::iter::repeat(7u8).take(100)); v };
            if apache_avro::from_avro_datum(&schema, &mut &big[..], None).is_err() { return Ok(Some("a 100-byte value is rejected although the limit in force is the default".into())); }
            Ok(None)
        }
        // C19: (fresh process) first set wins and is what every guard applies: limit L accepts L bytes, rejects L+1
        "limit_first_set_wins" => {
            let l = sc["limit"].as_u64().unwrap_or(64) as usize;
            let got = apache_avro::util::max_allocation_bytes(l);
            if got != l { return Ok(Some(format!("first max_allocation_bytes({l}) returned {got}"))); }
            let got2 = apache_avro::util::max_allocation_bytes(l + 1000);
            if got2 != l { return Ok(Some(format!("second call changed the limit: {got2}"))); }
            let schema = Schema::parse_str("\"bytes\"").map_err(|e| e.to_string())?;
            let enc = |n: usize| { let mut v = Vec::new(); hk::zig_i64(n as i64, &mut v).unwrap(); v.extend(std::iter::repeat(1u8).take(n)); v };
            if apache_avro::from_avro_datum(&schema, &mut &enc(l)[..], None).is_err() { return Ok(Some(format!("length {l} == limit is rejected"))); }
            if apache_avro::from_avro_datum(&schema, &mut &enc(l + 1)[..], None).is_ok() { return Ok(Some(format!("length {} > limit {l} is accepted", l + 1))); }
            if hk::safe_len(l).is_err() || hk::safe_len(l + 1).is_ok() { return Ok(Some("safe_len disagrees with the limit in force".into())); }
            // "the allocation limit in force is the one EVERY decoder applies": generic decoder and schema-aware deserializer,
            // length-prefixed (bytes, string) and schema-sized (fixed, and the container block size) requests
            let string_schema = Schema::parse_str("\"string\"").map_err(|e| e.to_string())?;
            for (what, sch, at, above) in [("bytes", &schema, enc(l), enc(l + 1)), ("string", &string_schema, enc(l), enc(l + 1))] {
                let rd = apache_avro::reader::datum::GenericDatumReader::builder(sch).build().map_err(|e| e.to_string())?;
                let ok_at = if what == "bytes" { rd.read_deser::<serde_bytes::ByteBuf>(&mut &at[..]).is_ok() } else { rd.read_deser::<String>(&mut &at[..]).is_ok() };
                let ok_above = if what == "bytes" { rd.read_deser::<serde_bytes::ByteBuf>(&mut &above[..]).is_ok() } else { rd.read_deser::<String>(&mut &above[..]).is_ok() };
                if !ok_at { return Ok(Some(format!("serde deserializer: {what} of length {l} == limit is rejected"))); }
                if ok_above { return Ok(Some(format!("serde deserializer: {what} of length {} > limit {l} is accepted", l + 1))); }
            }
            // schema-sized requests of the logical types over fixed: decimal (any size) — uuid and duration have fixed sizes 16 / 12
            for (size, must_ok) in [(l, true), (l + 1, false)] {
                if size == 0 { continue; }
                let fx = Schema::parse_str(&format!("{{\"type\":\"fixed\",\"name\":\"fd\",\"size\":{size},\"logicalType\":\"decimal\",\"precision\":1,\"scale\":0}}")).map_err(|e| e.to_string())?;
                let data = vec![0u8; size];
                let g = apache_avro::from_avro_datum(&fx, &mut &data[..], None).is_ok();
                if g != must_ok { return Ok(Some(format!("generic decoder: decimal over fixed of size {size} under limit {l}: accepted = {g}"))); }
                let rd = apache_avro::reader::datum::GenericDatumReader::builder(&fx).build().map_err(|e| e.to_string())?;
                let d = rd.read_deser::<serde_bytes::ByteBuf>(&mut &data[..]).is_ok();
                if d != must_ok { return Ok(Some(format!("serde deserializer: decimal over fixed of size {size} under limit {l}: accepted = {d}"))); }
            }
            for (size, must_ok) in [(l, true), (l + 1, false)] {
                let fx = Schema::parse_str(&format!("{{\"type\":\"fixed\",\"name\":\"f\",\"size\":{size}}}")).map_err(|e| e.to_string())?;
                let data = vec![1u8; size];
                let g = apache_avro::from_avro_datum(&fx, &mut &data[..], None).is_ok();
                let rd = apache_avro::reader::datum::GenericDatumReader::builder(&fx).build().map_err(|e| e.to_string())?;
                let d = rd.read_deser::<serde_bytes::ByteBuf>(&mut &data[..]).is_ok();
                if g != must_ok { return Ok(Some(format!("generic decoder: fixed of size {size} under limit {l}: accepted = {g}"))); }
                if d != must_ok { return Ok(Some(format!("serde deserializer: fixed of size {size} under limit {l}: accepted = {d}"))); }
            }
            // declared item counts of the schema-aware deserializer's array/map blocks (D7): a count above the limit is refused in
            // the positive form and in the negative form (count, then the byte size — which is NOT what is bounded)
            let arr = Schema::parse_str("{\"type\":\"array\",\"items\":\"null\"}").map_err(|e| e.to_string())?;
            let rd_arr = apache_avro::reader::datum::GenericDatumReader::builder(&arr).build().map_err(|e| e.to_string())?;
            for (count, must_ok) in [(l, true), (l + 1, false)] {
                if count == 0 { continue; }
                for neg in [false, true] {
                    let mut data = Vec::new();
                    if neg { hk::zig_i64(-(count as i64), &mut data).unwrap(); hk::zig_i64(0, &mut data).unwrap(); } else { hk::zig_i64(count as i64, &mut data).unwrap(); }
                    data.push(0);
                    let ok = rd_arr.read_deser::<Vec<()>>(&mut &data[..]).is_ok();
                    if ok != must_ok { return Ok(Some(format!("serde deserializer: array block declaring {count} items ({} form) under limit {l}: accepted = {ok}", if neg { "negative" } else { "positive" }))); }
                }
            }
            // container block whose byte size is above the limit
            let long_schema = Schema::parse_str("\"long\"").map_err(|e| e.to_string())?;
            let mut file = Vec::new();
            if l >= 512 { let mut w = apache_avro::Writer::builder().schema(&long_schema).writer(&mut file).marker([4u8; 16]).build().map_err(|e| e.to_string())?; w.flush().map_err(|e| e.to_string())?; }
            // (the header itself needs allocations of its metadata, so this part only runs for limits that admit a header)
            for (size, must_ok) in (if l >= 512 { vec![(l, true), (l + 1, false)] } else { vec![] }) {
                let mut f = file.clone();
                f.extend(crate::refimpl::long(size as i64)); f.extend(crate::refimpl::long(size as i64)); f.extend(std::iter::repeat(2u8).take(size)); f.extend_from_slice(&[4u8; 16]);
                let ok = apache_avro::Reader::new(&f[..]).map_err(|e| e.to_string())?.collect::<Result<Vec<Value>, _>>().is_ok();
                if ok != must_ok { return Ok(Some(format!("container reader: block of {size} bytes under limit {l}: accepted = {ok}"))); }
            }
            Ok(None)
        }
        // C19 (fresh process): threads racing to SET the allocation limit and the human-readable flag while others USE them — every
        // caller is told the same value, it is one of the values proposed (or the default, if a user got there first), and it never
        // changes afterwards. A bounded sample of schedules (the contract side reduces schedules to sequences by A12).
        "settings_race" => {
            use std::sync::{Arc, Barrier};
            let n = 8usize;
            let barrier = Arc::new(Barrier::new(2 * n));
            let mut handles = Vec::new();
            for i in 0..n {
                let b = barrier.clone();
                handles.push(std::thread::spawn(move || { b.wait(); (apache_avro::util::max_allocation_bytes(1000 + i), apache_avro::util::set_serde_human_readable(i % 2 == 0)) }));
                let b = barrier.clone();
                handles.push(std::thread::spawn(move || { b.wait();
                    let schema = Schema::parse_str("\"bytes\"").unwrap();
                    let _ = apache_avro::from_avro_datum(&schema, &mut &[4u8, 1, 2][..], None);
                    (apache_avro::util::max_allocation_bytes(77), apache_avro::util::set_serde_human_readable(true)) }));
            }
            let results: Vec<(usize, bool)> = handles.into_iter().map(|h| h.join().unwrap()).collect();
            let (l0, h0) = results[0];
            if results.iter().any(|r| *r != (l0, h0)) { return Ok(Some(format!("racing callers were told different values: {results:?}"))); }
            let proposed: Vec<usize> = (0..n).map(|i| 1000 + i).chain([77, apache_avro::util::DEFAULT_MAX_ALLOCATION_BYTES]).collect();
            if !proposed.contains(&l0) { return Ok(Some(format!("the limit in force ({l0}) is none of the proposed values"))); }
            for _ in 0..3 { if apache_avro::util::max_allocation_bytes(5) != l0 || apache_avro::util::set_serde_human_readable(!h0) != h0 { return Ok(Some("a setting changed after the race".into())); } }
            // and the decoders apply exactly that limit
            let schema = Schema::parse_str("\"bytes\"").map_err(|e| e.to_string())?;
            let enc = |k: usize| { let mut v = crate::refimpl::long(k as i64); v.extend(std::iter::repeat(1u8).take(k)); v };
            if l0 < (1 << 20) {
                if apache_avro::from_avro_datum(&schema, &mut &enc(l0)[..], None).is_err() { return Ok(Some(format!("length {l0} == limit in force is rejected"))); }
                if apache_avro::from_avro_datum(&schema, &mut &enc(l0 + 1)[..], None).is_ok() { return Ok(Some(format!("length {} > limit in force {l0} is accepted", l0 + 1))); }
            }
            Ok(None)
        }
        // C03/C04/C15: write `datums` with `codec` (null|deflate) in blocks of `per_block` values, read back: same values
        "container_roundtrip" => {
            let schema = Schema::parse_str(sc["schema"].as_str().ok_or("schema")?).map_err(|e| e.to_string())?;
            let codec = parse_codec(sc["codec"].as_str().unwrap_or("null"));
            let per_block = sc["per_block"].as_u64().unwrap_or(u64::MAX) as usize;
            let mut w = apache_avro::Writer::builder().schema(&schema).writer(Vec::new()).codec(codec).build().map_err(|e| e.to_string())?;
            let mut vals = Vec::new();
            for (i, d) in sc["datums"].as_array().ok_or("datums")?.iter().enumerate() {
                let b = crate::hex(d.as_str().unwrap_or(""));
                let v = apache_avro::from_avro_datum(&schema, &mut &b[..], None).map_err(|e| e.to_string())?;
                w.append_value_ref(&v).map_err(|e| e.to_string())?;
                vals.push(v);
                if (i + 1) % per_block.max(1) == 0 { w.flush().map_err(|e| e.to_string())?; }
            }
            let file = w.into_inner().map_err(|e| e.to_string())?;
            match apache_avro::Reader::new(&file[..]) {
                Ok(rd) => match rd.collect::<Result<Vec<Value>, _>>() { Ok(got) if got == vals => Ok(None), Ok(got) => Ok(Some(format!("read back {} values, wrote {}", got.len(), vals.len()))), Err(e) => Ok(Some(format!("file written by the library cannot be read back: {e}"))) },
                Err(e) => Ok(Some(format!("file cannot be opened: {e}"))),
            }
        }
        // C15: codec round trip on a payload (hex) for codec null|deflate
        "codec_roundtrip" => {
            let codec = parse_codec(sc["codec"].as_str().unwrap_or("null"));
            let payload = jhex(sc, "payload");
            let mut buf = payload.clone();
            codec.compress(&mut buf).map_err(|e| e.to_string())?;
            let compressed = buf.clone();
            match codec.decompress(&mut buf) { Ok(()) if buf == payload => {}, Ok(()) => return Ok(Some(format!("decompress(compress(x)) != x for |x| = {}", payload.len()))), Err(e) => return Ok(Some(format!("decompress rejects compress(x) (|x| = {}, compressed {:02x?}): {e}", payload.len(), compressed))) }
            // C15: "snappy blocks end with the big-endian CRC-32 of the uncompressed data and a wrong checksum is rejected" — for
            // every payload, the empty one included: reference CRC (bit by bit), then every single-bit alteration of the checksum
            if sc["codec"].as_str().unwrap_or("").starts_with("snappy") {
                let n = compressed.len();
                let want = rf::crc32(&payload).to_be_bytes();
                if n < 4 || compressed[n - 4..] != want { return Ok(Some(format!("snappy block of a {}-byte payload ends with {:02x?}, the big-endian CRC-32 of the payload is {:02x?}", payload.len(), &compressed[n.saturating_sub(4)..], want))); }
                for bit in 0..32 {
                    let mut m = compressed.clone(); m[n - 4 + bit / 8] ^= 1 << (bit % 8);
                    if codec.decompress(&mut m).is_ok() { return Ok(Some(format!("snappy block of a {}-byte payload with checksum bit {bit} flipped is accepted ({:02x?})", payload.len(), compressed))); }
                }
            }
            Ok(None)
        }
        // C12/C18: Rabin digest of `data` (hex) == CRC-64-AVRO per the specification, little-endian; and the single-object
        // header of a schema = C3 01 ++ that fingerprint of its canonical form
        "rabin_vs_ref" => {
            use apache_avro::rabin::Rabin;
            let data = jhex(sc, "data");
            let mut d = <Rabin as digest::Digest>::new();
            digest::Digest::update(&mut d, &data);
            let got = digest::Digest::finalize(d).to_vec();
            let want = rf::crc64avro(&data).to_le_bytes().to_vec();
            if got != want { return Ok(Some(format!("Rabin({:02x?}) = {:02x?}, specification says {:02x?}", data, got, want))); }
            // the digest is a function of the byte string, however it is fed: every split point, byte by byte, with empty
            // updates in between, reset and re-use
            for split in 0..=data.len() {
                let mut d = <Rabin as digest::Digest>::new();
                digest::Digest::update(&mut d, &data[..split]);
                digest::Digest::update(&mut d, &[] as &[u8]);
                digest::Digest::update(&mut d, &data[split..]);
                let got = digest::Digest::finalize(d).to_vec();
                if got != want { return Ok(Some(format!("Rabin fed {:02x?} then {:02x?} = {:02x?}, specification says {:02x?}", &data[..split], &data[split..], got, want))); }
            }
            let mut d = <Rabin as digest::Digest>::new();
            for b in &data { digest::Digest::update(&mut d, std::slice::from_ref(b)); }
            let got = digest::Digest::finalize_reset(&mut d).to_vec();
            if got != want { return Ok(Some(format!("Rabin fed byte by byte = {:02x?}, specification says {:02x?}", got, want))); }
            digest::Digest::update(&mut d, &data);
            let got = digest::Digest::finalize(d).to_vec();
            if got != want { return Ok(Some(format!("Rabin after finalize_reset = {:02x?}, specification says {:02x?}", got, want))); }
            Ok(None)
        }
        // C12: the canonical form of `text` is exactly `expect` (written by hand from the specification's rules: [PRIMITIVES],
        // [FULLNAMES], [STRIP], [ORDER], [STRINGS], [INTEGERS], [WHITESPACE]); its fingerprints are those of that text
        "canonical_expect" => {
            let text = sc["text"].as_str().ok_or("text")?;
            let expect = sc["expect"].as_str().ok_or("expect")?;
            let schema = Schema::parse_str(text).map_err(|e| format!("{text}: {e}"))?;
            let got = schema.canonical_form();
            if got != expect { return Ok(Some(format!("canonical form of {text} is {got}, the specification's rules give {expect}"))); }
            let fp = schema.fingerprint::<apache_avro::rabin::Rabin>().bytes;
            let want = rf::crc64avro(expect.as_bytes()).to_le_bytes().to_vec();
            if fp != want { return Ok(Some(format!("Rabin fingerprint {:02x?} is not CRC-64-AVRO of the canonical form ({:02x?})", fp, want))); }
            match Schema::parse_str(&got) { Ok(again) if again.canonical_form() == got => Ok(None), other => Ok(Some(format!("canonical form {got} does not round-trip: {:?}", other.map(|s| s.canonical_form())))) }
        }
        "single_object_header" => {
            let schema = Schema::parse_str(sc["schema"].as_str().ok_or("schema")?).map_err(|e| e.to_string())?;
            let canon = schema.canonical_form();
            let want: Vec<u8> = [0xC3u8, 0x01].iter().copied().chain(rf::crc64avro(canon.as_bytes()).to_le_bytes()).collect();
            let mut w = apache_avro::GenericSingleObjectWriter::new_with_capacity(&schema, 16).map_err(|e| e.to_string())?;
            let mut out = Vec::new();
            let v = crate::dsl(&sc["value"])?;
            w.write_value_ref(&v, &mut out).map_err(|e| e.to_string())?;
            if out.len() < 10 || out[..10] != want[..] { return Ok(Some(format!("message starts with {:02x?}, the specification's header for this schema is {:02x?}", &out[..out.len().min(10)], want))); }
            // every single-bit alteration of the header and every truncation must be rejected
            let rd = apache_avro::GenericSingleObjectReader::builder().schema(schema.clone()).build().map_err(|e| e.to_string())?;
            for bit in 0..80 { let mut m = out.clone(); m[bit / 8] ^= 1 << (bit % 8); if rd.read_value(&mut &m[..]).is_ok() { return Ok(Some(format!("message with header bit {bit} flipped is accepted"))); } }
            for cut in 0..10 { if rd.read_value(&mut &out[..cut]).is_ok() { return Ok(Some(format!("message cut to {cut} bytes is accepted"))); } }
            match rd.read_value(&mut &out[..]) { Ok(back) if back == v => Ok(None), other => Ok(Some(format!("message does not read back: {other:?}"))) }
        }
        // C18: the header is a function of the schema alone — whatever other schemas this process has built headers for before
        // (same full name, different definition): every message starts with C3 01 + CRC-64-AVRO of ITS OWN canonical form, and a
        // reader for one definition refuses the messages of the other
        "single_object_header_history" => {
            let texts: Vec<&str> = sc["schemas"].as_array().ok_or("schemas")?.iter().filter_map(|t| t.as_str()).collect();
            let mut msgs: Vec<(Schema, Vec<u8>)> = Vec::new();
            for t in &texts {
                let schema = Schema::parse_str(t).map_err(|e| e.to_string())?;
                let canon = schema.canonical_form();
                let want: Vec<u8> = [0xC3u8, 0x01].iter().copied().chain(rf::crc64avro(canon.as_bytes()).to_le_bytes()).collect();
                let hdr = apache_avro::headers::RabinFingerprintHeader::from_schema(&schema);
                let built = apache_avro::headers::HeaderBuilder::build_header(&hdr);
                if built != want { return Ok(Some(format!("header built for {t} after {} earlier schema(s) is {:02x?}, the specification's header is {:02x?}", msgs.len(), built, want))); }
                let mut w = apache_avro::GenericSingleObjectWriter::new_with_capacity(&schema, 16).map_err(|e| e.to_string())?;
                let mut out = Vec::new();
                let v = crate::dsl(&sc["value"])?;
                if w.write_value_ref(&v, &mut out).is_ok() {
                    if out.len() < 10 || out[..10] != want[..] { return Ok(Some(format!("message for {t} starts with {:02x?}, the specification's header is {:02x?}", &out[..out.len().min(10)], want))); }
                    msgs.push((schema, out));
                }
            }
            for (i, (schema, _)) in msgs.iter().enumerate() {
                let rd = apache_avro::GenericSingleObjectReader::builder().schema(schema.clone()).build().map_err(|e| e.to_string())?;
                for (j, (other, m)) in msgs.iter().enumerate() {
                    let ok = rd.read_value(&mut &m[..]).is_ok();
                    if i == j && !ok { return Ok(Some(format!("reader for schema #{i} refuses its own message"))); }
                    if i != j && other.canonical_form() != schema.canonical_form() && ok { return Ok(Some(format!("reader for schema #{i} accepts a message written with the different schema #{j}"))); }
                }
            }
            Ok(None)
        }
        // C11: parsing never panics; every operation on an accepted schema completes without panicking (a panic is caught by
        // the wrapper and reported); canonical form re-parses to the same canonical form
        "schema_ops" => {
            let text = sc["text"].as_str().ok_or("text")?;
            // `expect`: "reject" — ill-formed by the specification (C11: "every schema it accepts is well formed");
            //           "accept" — well formed by the specification (C11: "every well-formed schema is accepted")
            match (sc["expect"].as_str(), Schema::parse_str(text)) {
                (Some("reject"), Ok(s)) => return Ok(Some(format!("ill-formed schema accepted ({}): {text} parsed as {s:?}", sc["why"].as_str().unwrap_or("")))),
                (Some("accept"), Err(e)) => return Ok(Some(format!("well-formed schema rejected: {text}: {e}"))),
                _ => {}
            }
            if let Ok(schema) = Schema::parse_str(text) {
                // well-formedness of what was accepted: unique field names per record, enum default is a symbol, no nested union
                fn wf(s: &Schema) -> Option<String> {
                    match s {
                        Schema::Record(r) => { let mut seen = std::collections::HashSet::new();
                            for f in &r.fields { if !seen.insert(f.name.clone()) { return Some(format!("accepted record {:?} has two fields named {:?}", r.name, f.name)); } if let Some(m) = wf(&f.schema) { return Some(m); } } None }
                        Schema::Enum(e) => { let mut seen = std::collections::HashSet::new(); for sy in &e.symbols { if !seen.insert(sy) { return Some(format!("accepted enum has duplicate symbol {sy}")); } }
                            if let Some(d) = &e.default { if !e.symbols.contains(d) { return Some(format!("accepted enum default {d} is not a symbol")); } } None }
                        Schema::Union(u) => { for v in u.variants() { if matches!(v, Schema::Union(_)) { return Some("accepted union directly contains a union".into()); } if let Some(m) = wf(v) { return Some(m); } } None }
                        Schema::Array(a) => wf(&a.items), Schema::Map(m) => wf(&m.types),
                        _ => None,
                    }
                }
                if let Some(m) = wf(&schema) { return Ok(Some(m)); }
                let canon = schema.canonical_form();
                let _ = schema.fingerprint::<apache_avro::rabin::Rabin>();
                let _ = serde_json::to_string(&schema).map_err(|e| e.to_string())?;
                let _ = format!("{schema:?}");
                match Schema::parse_str(&canon) {
                    // (in the accept/reject catalogue of C11 logical types are excluded from this comparison: their canonical form is the
                    // recorded known finding D14 under C12, whose own replay — a schema_ops scenario without `expect` — still checks it)
                    Ok(again) => if again.canonical_form() != canon && !((sc.get("expect").is_some() || sc["d14"].as_bool() == Some(true)) && text.contains("logicalType")) { return Ok(Some(format!("canonical form is not a fixed point: {canon} -> {}", again.canonical_form()))); },
                    Err(e) => return Ok(Some(format!("canonical form {canon} of an accepted schema does not parse: {e}"))),
                }
            }
            Ok(None)
        }
        // C11: "parsing any text never panics or hangs, and every operation on an accepted schema completes without panicking" —
        // systematic mutations of valid schema texts (truncation at every offset, every character deleted, every digit run replaced
        // by huge / negative / fractional numbers, every string literal replaced by "", "1x" and a name of another type), each put
        // through the schema_ops check (parse; if accepted: well-formedness oracle, canonical form, fingerprint, JSON, Debug)
        "schema_text_fuzz" => {
            let seeds = [
                "{\"type\":\"record\",\"name\":\"n.R\",\"aliases\":[\"Old\"],\"fields\":[{\"name\":\"a\",\"type\":[\"null\",\"long\"],\"default\":null},{\"name\":\"b\",\"type\":{\"type\":\"array\",\"items\":\"n.R\"},\"default\":[]}]}",
                "{\"type\":\"enum\",\"name\":\"E\",\"symbols\":[\"A\",\"B\"],\"default\":\"A\"}",
                "{\"type\":\"fixed\",\"name\":\"F\",\"size\":16,\"logicalType\":\"decimal\",\"precision\":10,\"scale\":2}",
                "{\"type\":\"map\",\"values\":{\"type\":\"bytes\",\"logicalType\":\"decimal\",\"precision\":4}}",
                "[\"null\",{\"type\":\"string\",\"logicalType\":\"uuid\"},{\"type\":\"long\",\"logicalType\":\"timestamp-micros\"},{\"type\":\"fixed\",\"name\":\"D\",\"size\":12,\"logicalType\":\"duration\"}]",
            ];
            let mut n = 0usize;
            for seed in seeds {
                let chars: Vec<char> = seed.chars().collect();
                let mut texts: Vec<String> = Vec::new();
                for i in 0..chars.len() { texts.push(chars[..i].iter().collect()); let mut c = chars.clone(); c.remove(i); texts.push(c.into_iter().collect()); }
                // numbers
                let mut i = 0; while i < chars.len() { if chars[i].is_ascii_digit() { let mut j = i; while j < chars.len() && chars[j].is_ascii_digit() { j += 1; }
                    for rep in ["18446744073709551616", "-1", "1.5", "1e400", "0", "99999999999999999999999999999999"] { let t: String = chars[..i].iter().collect::<String>() + rep + &chars[j..].iter().collect::<String>(); texts.push(t); }
                    i = j; } else { i += 1; } }
                // string literals
                let mut i = 0; while i < chars.len() { if chars[i] == '"' { let mut j = i + 1; while j < chars.len() && chars[j] != '"' { j += 1; }
                    for rep in ["\"\"", "\"1x\"", "\"n.R\"", "\"null\"", "\"record\"", "null", "7", "[]", "{}"] { let t: String = chars[..i].iter().collect::<String>() + rep + &chars[(j + 1).min(chars.len())..].iter().collect::<String>(); texts.push(t); }
                    i = j + 1; } else { i += 1; } }
                for t in texts {
                    n += 1;
                    let scn = serde_json::json!({"kind": "schema_ops", "text": t, "d14": true});   // logical types' canonical form is known finding D14 (C12)
                    if let Some(m) = run_inner(&scn)? { return Ok(Some(format!("mutated schema text {t}: {m}"))); }
                }
            }
            let _ = n;
            Ok(None)
        }
        // C08: data written with `writer`, read with `reader`: the result is the value the resolution rules prescribe (`expect`,
        // value DSL; "error" = the rules give no result), it validates against the reader schema and re-resolving changes nothing
        "read_with_reader_schema" => {
            let ws = Schema::parse_str(sc["writer"].as_str().ok_or("writer")?).map_err(|e| e.to_string())?;
            let rs = Schema::parse_str(sc["reader"].as_str().ok_or("reader")?).map_err(|e| e.to_string())?;
            let bytes = jhex(sc, "datum");
            let got = apache_avro::from_avro_datum(&ws, &mut &bytes[..], Some(&rs));
            if sc["expect"].as_str() == Some("error") {
                return Ok(got.ok().map(|v| format!("the resolution rules give no result here, but reading returned {v:?}")));
            }
            let want = crate::dsl(&sc["expect"])?;
            match got {
                Ok(v) => {
                    if v != want { return Ok(Some(format!("read {v:?}, the resolution rules prescribe {want:?}"))); }
                    if !v.validate(&rs) { return Ok(Some(format!("result {v:?} does not validate against the reader schema"))); }
                    match v.clone().resolve(&rs) { Ok(v2) if v2 == v => Ok(None), other => Ok(Some(format!("resolving the resolved value changes it: {other:?}"))) }
                }
                Err(e) => Ok(Some(format!("reading failed ({e}) where the rules prescribe {want:?}"))),
            }
        }
        // C08: the CONTAINER reader with a reader schema gives what the resolution rules prescribe (same expectation format as
        // read_with_reader_schema; the container decides by itself whether it has to resolve at all)
        "container_reader_schema" => {
            let ws = Schema::parse_str(sc["writer"].as_str().ok_or("writer")?).map_err(|e| e.to_string())?;
            let rs = Schema::parse_str(sc["reader"].as_str().ok_or("reader")?).map_err(|e| e.to_string())?;
            let bytes = jhex(sc, "datum");
            let v = apache_avro::from_avro_datum(&ws, &mut &bytes[..], None).map_err(|e| e.to_string())?;
            let mut w = apache_avro::Writer::new(&ws, Vec::new()).map_err(|e| e.to_string())?;
            w.append_value_ref(&v).map_err(|e| e.to_string())?;
            let file = w.into_inner().map_err(|e| e.to_string())?;
            let rd = apache_avro::Reader::builder(&file[..]).reader_schema(&rs).build().map_err(|e| e.to_string())?;
            let got: Vec<_> = rd.collect();
            if sc["expect"].as_str() == Some("error") {
                return Ok(if got.iter().any(|r| r.is_err()) { None } else { Some(format!("the resolution rules give no result here, but the container reader returned {got:?}")) });
            }
            let want = crate::dsl(&sc["expect"])?;
            match &got[..] {
                [Ok(x)] if *x == want => if x.validate(&rs) { Ok(None) } else { Ok(Some(format!("result {x:?} does not validate against the reader schema"))) },
                other => Ok(Some(format!("container reader returned {other:?}, the resolution rules prescribe {want:?}"))),
            }
        }
        // C04: a spec-conforming file may contain a block with object count 0; the values of later blocks must still be read
        "container_empty_block" => {
            let schema = Schema::parse_str("\"long\"").map_err(|e| e.to_string())?;
            let mut file = Vec::new();
            {
                let mut w = apache_avro::Writer::builder().schema(&schema).writer(&mut file).marker([7u8; 16]).build().map_err(|e| e.to_string())?;
                w.flush().map_err(|e| e.to_string())?;
            }
            // `layout`: object count of each block (default [0, 2]); values are 1, 2, 3, ... (one byte each, < 64)
            let layout: Vec<u64> = sc["layout"].as_array().map(|a| a.iter().filter_map(|x| x.as_u64()).collect()).unwrap_or(vec![0, 2]);
            let mut next = 1u8;
            let mut expect = Vec::new();
            for k in layout {
                file.push((k * 2) as u8); file.push((k * 2) as u8);                          // count k, byte size k
                for _ in 0..k { file.push(next * 2); expect.push(Value::Long(next as i64)); next += 1; }
                file.extend_from_slice(&[7u8; 16]);
            }
            match apache_avro::Reader::new(&file[..]) {
                Ok(rd) => match rd.collect::<Result<Vec<Value>, _>>() {
                    Ok(v) if v == expect => Ok(None),
                    other => Ok(Some(format!("file with zero-count blocks: expected {expect:?}, read {other:?}"))),
                },
                Err(e) => Ok(Some(format!("cannot open: {e}"))),
            }
        }
        // C05/C14/C04: block-level mutations of a valid multi-block container file — for each block: byte size := 0 with the
        // payload dropped; count + 1; last payload byte dropped (size adjusted); one garbage byte appended to the payload
        // (size adjusted); count := 0 with the payload kept. Both iterators (Value and serde). Never a panic or a hang
        // (wrapper); a block that declares more objects than its bytes hold must surface as an error, and the values of the
        // blocks before the mutated one must be delivered unchanged.
        "container_block_mutations" => {
            let schema = Schema::parse_str("\"int\"").map_err(|e| e.to_string())?;
            let codec = parse_codec(sc["codec"].as_str().unwrap_or("null"));
            let mut header = Vec::new();
            {
                let mut w = apache_avro::Writer::builder().schema(&schema).writer(&mut header).codec(codec).marker([9u8; 16]).build().map_err(|e| e.to_string())?;
                w.flush().map_err(|e| e.to_string())?;
            }
            // the magic: "Obj" followed by the version byte 1 — any other value of any of the four bytes is not a container file
            if sc["codec"].as_str().unwrap_or("null") == "null" {
                let mut valid = header.clone();
                valid.extend_from_slice(&[2, 2, 2, 4]); valid.extend_from_slice(&[9u8; 16]);
                for pos in 0..4 { for v in 0..=255u8 { if v == valid[pos] { continue; }
                    let mut f = valid.clone(); f[pos] = v;
                    if apache_avro::Reader::new(&f[..]).is_ok() { return Ok(Some(format!("a file whose magic byte {pos} is {v:#04x} instead of {:#04x} is opened as a container file", valid[pos]))); }
                } }
            }
            let blocks: Vec<Vec<i32>> = vec![vec![1, 2], vec![3], vec![4, 5, 6], vec![700, -70000]];
            let enc_int = |v: i32| -> Vec<u8> { apache_avro::to_avro_datum(&schema, Value::Int(v)).unwrap() };
            let varint = |n: i64| -> Vec<u8> { apache_avro::to_avro_datum(&Schema::Long, Value::Long(n)).unwrap() };
            for bi in 0..blocks.len() {
                for mutation in ["size0", "count+1", "cut1", "garbage1", "count0", "marker", "eof"] {
                    if matches!(codec, apache_avro::Codec::Deflate(_)) && !matches!(mutation, "count+1" | "count0" | "marker" | "eof") { continue; }
                    let mut file = header.clone();
                    let mut before: Vec<i32> = Vec::new();
                    for (i, b) in blocks.iter().enumerate() {
                        let mut payload: Vec<u8> = b.iter().flat_map(|v| enc_int(*v)).collect();
                        let mut count = b.len() as i64;
                        if i == bi {
                            match mutation { "size0" => payload.clear(), "count+1" => count += 1, "cut1" => { payload.pop(); }, "garbage1" => payload.push(0x80), _ => count = 0 }
                        } else if i < bi { before.extend(b.iter()); }
                        if matches!(codec, apache_avro::Codec::Deflate(_)) { codec.compress(&mut payload).map_err(|e| e.to_string())?; }
                        file.extend(varint(count)); file.extend(varint(payload.len() as i64)); file.extend(&payload); file.extend_from_slice(&[9u8; 16]);
                        if i == bi && mutation == "marker" { let l = file.len(); file[l - 16] ^= 0x40; }
                        if i == bi && mutation == "eof" { let l = file.len(); file.truncate(l - 7); break; }
                    }
                    let must_err = matches!(mutation, "size0" | "count+1" | "cut1" | "marker" | "eof");
                    // Value iterator
                    let rd = apache_avro::Reader::new(&file[..]).map_err(|e| format!("header: {e}"))?;
                    let items: Vec<_> = rd.take(64).collect();
                    if let Some(p) = items.iter().position(|r| r.is_err()) { if p + 1 != items.len() {
                        return Ok(Some(format!("block {bi} mutation {mutation}: the iterator went on after its first error (item {p} of {}): C14 latch", items.len())));
                    } }
                    let oks: Vec<i32> = items.iter().take_while(|r| r.is_ok()).filter_map(|r| match r { Ok(Value::Int(i)) => Some(*i), _ => None }).collect();
                    if oks.len() < before.len() || oks[..before.len()] != before[..] {
                        return Ok(Some(format!("block {bi} mutation {mutation}: the values of the earlier blocks {before:?} were not delivered first: {oks:?}")));
                    }
                    if must_err && !items.iter().any(|r| r.is_err()) {
                        return Ok(Some(format!("block {bi} mutation {mutation}: no error surfaced, values {oks:?}")));
                    }
                    // serde iterator
                    let rd = apache_avro::Reader::new(&file[..]).map_err(|e| format!("header: {e}"))?;
                    let items: Vec<_> = rd.into_deser_iter::<i32>().take(64).collect();
                    if let Some(p) = items.iter().position(|r| r.is_err()) { if p + 1 != items.len() {
                        return Ok(Some(format!("block {bi} mutation {mutation} (serde iterator): the iterator went on after its first error (item {p} of {}): C14 latch", items.len())));
                    } }
                    let oks: Vec<i32> = items.iter().take_while(|r| r.is_ok()).filter_map(|r| r.as_ref().ok().copied()).collect();
                    if oks.len() < before.len() || oks[..before.len()] != before[..] {
                        return Ok(Some(format!("block {bi} mutation {mutation} (serde iterator): the values of the earlier blocks {before:?} were not delivered first: {oks:?}")));
                    }
                    if must_err && !items.iter().any(|r| r.is_err()) {
                        return Ok(Some(format!("block {bi} mutation {mutation} (serde iterator): no error surfaced, values {oks:?}")));
                    }
                }
            }
            Ok(None)
        }
        // C05/C06/C16: schema-aware deserializer on arbitrary bytes: never panics (wrapper), and it agrees with the generic
        // decoder on whether the bytes are a complete datum. `as`: "bytes" | "json" (serde_json::Value) | "unit_vec"
        "deser_datum" => {
            let schema = Schema::parse_str(sc["schema"].as_str().ok_or("schema")?).map_err(|e| e.to_string())?;
            let bytes = jhex(sc, "bytes");
            let rd = apache_avro::reader::datum::GenericDatumReader::builder(&schema).build().map_err(|e| e.to_string())?;
            let mut r1 = &bytes[..];
            let mut n_serde: Option<usize> = None;
            let ok_serde = match sc["as"].as_str().unwrap_or("json") {
                "bytes" => rd.read_deser::<serde_bytes::ByteBuf>(&mut r1).is_ok(),
                "unit_vec" => match rd.read_deser::<Vec<()>>(&mut r1) { Ok(v) => { n_serde = Some(v.len()); true } Err(_) => false },
                // record r { ticks: array<null>, count: int } (a typed struct: records cannot be deserialized into serde_json::Value)
                "rec_ticks" => { #[derive(serde::Deserialize)] #[serde(rename = "r")] #[allow(dead_code)] struct R { ticks: Vec<()>, count: i32 } match rd.read_deser::<R>(&mut r1) { Ok(v) => { n_serde = Some(v.ticks.len()); true } Err(_) => false } }
                _ => rd.read_deser::<serde_json::Value>(&mut r1).is_ok(),
            };
            let used_serde = bytes.len() - r1.len();
            let mut r2 = &bytes[..];
            let generic = apache_avro::from_avro_datum(&schema, &mut r2, None);
            let ok_generic = generic.is_ok();
            let used_generic = bytes.len() - r2.len();
            // the number of (zero-width) items each decoder delivers: the declared counts, whatever the block's byte size says
            let n_generic = match &generic { Ok(Value::Array(items)) => Some(items.len()), Ok(Value::Record(fs)) => fs.iter().find_map(|(_, v)| if let Value::Array(items) = v { Some(items.len()) } else { None }), _ => None };
            if let (true, true, Some(a), Some(b)) = (ok_serde, ok_generic, n_serde, n_generic) { if a != b { return Ok(Some(format!("the two decoders deliver {a} (schema-aware deserializer) vs {b} (generic decoder) items from {:02x?}", &bytes[..bytes.len().min(24)]))); } }
            if ok_serde != ok_generic { return Ok(Some(format!("the two decoders disagree on {:02x?}: schema-aware deserializer ok={ok_serde}, generic decoder ok={ok_generic}", &bytes[..bytes.len().min(24)]))); }
            if ok_serde && used_serde != used_generic { return Ok(Some(format!("the two decoders consume {used_serde} vs {used_generic} bytes"))); }
            Ok(None)
        }
        // C01: datums written back to back are read back one after another from the SAME reader (exact consumption)
        "concat_datums" => {
            let schema = Schema::parse_str(sc["schema"].as_str().ok_or("schema")?).map_err(|e| e.to_string())?;
            let parts: Vec<Vec<u8>> = sc["datums"].as_array().ok_or("datums")?.iter().map(|d| crate::hex(d.as_str().unwrap_or(""))).collect();
            let all: Vec<u8> = parts.concat();
            let rdr = apache_avro::reader::datum::GenericDatumReader::builder(&schema).build().map_err(|e| e.to_string())?;
            let mut rd = &all[..];
            let mut used = 0usize;
            for (i, p) in parts.iter().enumerate() {
                let want = apache_avro::from_avro_datum(&schema, &mut &p[..], None).map_err(|e| e.to_string())?;
                match rdr.read_value(&mut rd) {
                    Ok(v) if v == want => { used += p.len(); if all.len() - rd.len() != used { return Ok(Some(format!("after datum {i} the reader has consumed {} bytes, the datums so far are {used} bytes long", all.len() - rd.len()))); } }
                    other => return Ok(Some(format!("datum {i} of {} read back as {other:?}", parts.len()))),
                }
            }
            Ok(None)
        }
        // C01/C18: EVERY reading route consumes exactly one message from the caller's reader, so messages written back to back are
        // read one after another: datum reader (read_value, read_deser), single-object readers (generic read_value/read_deser,
        // typed read / read_from_value); streams shorter and longer than any internal buffer (8 KiB)
        "stream_of_messages" => {
            #[derive(serde::Serialize, serde::Deserialize, PartialEq, Debug, Clone)]
            struct Pt { x: i64, y: String }
            impl apache_avro::AvroSchema for Pt {
                fn get_schema() -> Schema { Schema::parse_str("{\"type\":\"record\",\"name\":\"Pt\",\"fields\":[{\"name\":\"x\",\"type\":\"long\"},{\"name\":\"y\",\"type\":\"string\"}]}").unwrap() }
            }
            impl From<Pt> for Value { fn from(p: Pt) -> Value { Value::Record(vec![("x".into(), Value::Long(p.x)), ("y".into(), Value::String(p.y))]) } }
            impl From<Value> for Pt { fn from(v: Value) -> Pt { match v { Value::Record(f) => { let x = match &f[0].1 { Value::Long(n) => *n, _ => 0 }; let y = match &f[1].1 { Value::String(s) => s.clone(), _ => String::new() }; Pt { x, y } }, _ => Pt { x: 0, y: String::new() } } } }
            let schema = <Pt as apache_avro::AvroSchema>::get_schema();
            for (count, ylen) in [(3usize, 5usize), (40, 300), (3, 9000)] {
                let pts: Vec<Pt> = (0..count).map(|i| Pt { x: i as i64 * 1000 - 7, y: "q".repeat(ylen + i) }).collect();
                // --- plain datums back to back
                let mut stream = Vec::new();
                for p in &pts { stream.extend(apache_avro::to_avro_datum(&schema, Value::from(p.clone())).map_err(|e| e.to_string())?); }
                let dr = apache_avro::reader::datum::GenericDatumReader::builder(&schema).build().map_err(|e| e.to_string())?;
                let mut rd = &stream[..];
                for (i, p) in pts.iter().enumerate() { match dr.read_value(&mut rd) { Ok(v) if v == Value::from(p.clone()) => {}, other => return Ok(Some(format!("GenericDatumReader::read_value: datum {i} of {count} (strings of ~{ylen} bytes) in one stream reads as {:?}", other.map(|_| "another value").map_err(|e| e.to_string())))) } }
                if !rd.is_empty() { return Ok(Some(format!("GenericDatumReader::read_value left {} bytes", rd.len()))); }
                let mut rd = &stream[..];
                for (i, p) in pts.iter().enumerate() { match dr.read_deser::<Pt>(&mut rd) { Ok(v) if v == *p => {}, other => return Ok(Some(format!("GenericDatumReader::read_deser: datum {i} of {count} (strings of ~{ylen} bytes) in one stream reads as {:?}", other.map(|_| "another value").map_err(|e| e.to_string())))) } }
                if !rd.is_empty() { return Ok(Some(format!("GenericDatumReader::read_deser left {} bytes", rd.len()))); }
                // --- single-object messages back to back
                let sw = apache_avro::SpecificSingleObjectWriter::<Pt>::new().map_err(|e| e.to_string())?;
                let mut stream = Vec::new();
                for p in &pts { sw.write_value(p.clone(), &mut stream).map_err(|e| e.to_string())?; }
                let gr = apache_avro::GenericSingleObjectReader::builder().schema(schema.clone()).build().map_err(|e| e.to_string())?;
                let sr = apache_avro::SpecificSingleObjectReader::<Pt>::new().map_err(|e| e.to_string())?;
                for route in ["generic.read_value", "generic.read_deser", "specific.read", "specific.read_from_value"] {
                    let mut rd = &stream[..];
                    for (i, p) in pts.iter().enumerate() {
                        let got: Result<Pt, String> = match route {
                            "generic.read_value" => gr.read_value(&mut rd).map(Pt::from).map_err(|e| e.to_string()),
                            "generic.read_deser" => gr.read_deser::<Pt>(&mut rd).map_err(|e| e.to_string()),
                            "specific.read" => sr.read(&mut rd).map_err(|e| e.to_string()),
                            _ => sr.read_from_value(&mut rd).map_err(|e| e.to_string()),
                        };
                        match got { Ok(v) if v == *p => {}, other => return Ok(Some(format!("single-object {route}: message {i} of {count} (strings of ~{ylen} bytes) in one stream reads as {:?}", other.map(|_| "another value")))) }
                    }
                    if !rd.is_empty() { return Ok(Some(format!("single-object {route} left {} bytes after the last message", rd.len()))); }
                }
            }
            Ok(None)
        }
        // C05: every byte string up to `max_len` (default 2) plus a seeded sample of longer ones, under each schema of a
        // built-in list: no panic (wrapper), no hang (timeout), and Ok means a complete datum (re-encoding = bytes consumed
        // for canonical inputs is NOT required here, only that re-encoding succeeds)
        "decode_exhaustive" => {
            let max_len = sc["max_len"].as_u64().unwrap_or(2) as usize;
            // a small allocation limit (this is a fresh process): hostile lengths are rejected instead of zero-filling 512 MiB each
            let _ = apache_avro::util::max_allocation_bytes(sc["limit"].as_u64().unwrap_or(1 << 16) as usize);
            let schemas = ["\"bytes\"", "\"string\"", "\"long\"", "\"boolean\"", "{\"type\":\"bytes\",\"logicalType\":\"big-decimal\"}",
                "{\"type\":\"bytes\",\"logicalType\":\"decimal\",\"precision\":5,\"scale\":1}", "{\"type\":\"array\",\"items\":\"null\"}", "{\"type\":\"map\",\"values\":\"int\"}",
                "[\"null\",\"string\",{\"type\":\"enum\",\"name\":\"e\",\"symbols\":[\"a\",\"b\"]}]", "{\"type\":\"fixed\",\"name\":\"f\",\"size\":2}",
                "{\"type\":\"string\",\"logicalType\":\"uuid\"}", "{\"type\":\"fixed\",\"name\":\"d\",\"size\":12,\"logicalType\":\"duration\"}",
                "{\"type\":\"fixed\",\"name\":\"fd\",\"size\":2,\"logicalType\":\"decimal\",\"precision\":4,\"scale\":1}", "{\"type\":\"fixed\",\"name\":\"f0\",\"size\":0,\"logicalType\":\"decimal\",\"precision\":1,\"scale\":0}",
                "\"float\"", "\"double\"", "\"int\"", "{\"type\":\"int\",\"logicalType\":\"date\"}", "{\"type\":\"long\",\"logicalType\":\"timestamp-micros\"}",
                "{\"type\":\"array\",\"items\":\"boolean\"}", "{\"type\":\"record\",\"name\":\"r\",\"fields\":[{\"name\":\"a\",\"type\":\"int\"},{\"name\":\"b\",\"type\":[\"null\",\"string\"]}]}",
                "{\"type\":\"bytes\",\"logicalType\":\"uuid\"}", "{\"type\":\"fixed\",\"name\":\"u16\",\"size\":16,\"logicalType\":\"uuid\"}"];
            let mut x = sc["seed"].as_u64().unwrap_or(0).wrapping_add(0x9E3779B97F4A7C15);
            // `only`: indices into the schema list (the thorough tier runs max_len 3 on a subset)
            let only: Option<Vec<usize>> = sc["only"].as_array().map(|a| a.iter().filter_map(|v| v.as_u64().map(|n| n as usize)).collect());
            for (si, st) in schemas.into_iter().enumerate() {
                if let Some(o) = &only { if !o.contains(&si) { continue; } }
                let schema = Schema::parse_str(st).map_err(|e| format!("{st}: {e}"))?;
                let mut inputs: Vec<Vec<u8>> = vec![vec![]];
                for a in 0..=255u8 { inputs.push(vec![a]); }
                if max_len >= 2 { for a in 0..=255u8 { for b in 0..=255u8 { inputs.push(vec![a, b]); } } }
                if max_len >= 3 { for a in 0..=255u8 { for b in 0..=255u8 { for c in 0..=255u8 { inputs.push(vec![a, b, c]); } } } }
                for _ in 0..3000 { x = x.wrapping_mul(6364136223846793005).wrapping_add(1442695040888963407); let l = 3 + (x >> 60) as usize; inputs.push((0..l).map(|i| (x >> (8 * (i % 8))) as u8 ^ (i as u8).wrapping_mul(37)).collect()); }
                let dr = apache_avro::reader::datum::GenericDatumReader::builder(&schema).build().map_err(|e| e.to_string())?;
                for inp in inputs {
                    let mut rd = &inp[..];
                    if let Ok(v) = dr.read_value(&mut rd) {
                        if !v.validate(&schema) { return Ok(Some(format!("schema {st}: input {:02x?} decodes to {v:?} which does not validate", inp))); }
                        if let Some(m) = value_ill_formed(&v) { return Ok(Some(format!("schema {st}: input {:02x?} decodes to an ill-formed value: {m}", inp))); }
                        // C06: "re-encoding it succeeds, and decoding the re-encoded bytes returns the same value"
                        let consumed = inp.len() - rd.len();
                        match apache_avro::to_avro_datum(&schema, v.clone()) {
                            Err(e) => return Ok(Some(format!("schema {st}: input {:02x?} decodes to {v:?} ({consumed} bytes) but re-encoding that value fails: {e}", inp))),
                            Ok(again) => {
                                // fixed-width kinds have exactly one encoding: the value must re-encode to the bytes consumed (a short
                                // payload accepted as a whole value shows up here)
                                let unique = st.contains("\"fixed\"") || st == "\"float\"" || st == "\"double\"" || st == "\"boolean\"";
                                if unique && again[..] != inp[..consumed] { return Ok(Some(format!("schema {st}: input {:02x?} decodes to {v:?} consuming {consumed} byte(s), but that value's encoding is {:02x?}", inp, again))); }
                                let mut rd2 = &again[..];
                                match dr.read_value(&mut rd2) {
                                    // values compared through their encodings (floats bit for bit: NaN != NaN under PartialEq)
                                    Ok(v2) if rd2.is_empty() && (v2 == v || apache_avro::to_avro_datum(&schema, v2.clone()).ok().as_ref() == Some(&again)) => {}
                                    other => return Ok(Some(format!("schema {st}: input {:02x?} decodes to {v:?}; re-encoded as {:02x?} it decodes to {other:?} with {} byte(s) left", inp, again, rd2.len()))),
                                }
                            }
                        }
                    }
                }
            }
            Ok(None)
        }
        // C15: round trip of a run of `len` copies of `byte` (highly compressible, larger than codec windows)
        "codec_roundtrip_run" => {
            let codec = parse_codec(sc["codec"].as_str().unwrap_or("null"));
            let payload = vec![sc["byte"].as_u64().unwrap_or(0) as u8; sc["len"].as_u64().unwrap_or(0) as usize];
            let mut buf = payload.clone();
            codec.compress(&mut buf).map_err(|e| e.to_string())?;
            let clen = buf.len();
            match codec.decompress(&mut buf) { Ok(()) if buf == payload => Ok(None), Ok(()) => Ok(Some(format!("decompress(compress(x)) != x for a run of {} bytes", payload.len()))), Err(e) => Ok(Some(format!("decompress rejects compress(x) for a run of {} bytes (compressed to {clen}): {e}", payload.len()))) }
        }
        // C01/C02/C13: a built-in corpus of (schema, value) pairs covering every primitive at its boundaries, unions with null at
        // every position, zero-width items, nested composites and logical types: encode, decode, compare; exact consumption when
        // two datums are concatenated; validating and non-validating writers agree; returned count = bytes written
        "datum_corpus" => {
            let mut corpus: Vec<(&str, Value)> = Vec::new();
            for n in [0i64, -1, 1, 63, 64, -64, -65, 8191, 8192, -8193, i32::MAX as i64, i32::MIN as i64, i32::MAX as i64 + 1, 1 << 34, -(1 << 41), 1 << 48, -(1 << 55), 1 << 62, i64::MAX, i64::MIN] { corpus.push(("\"long\"", Value::Long(n))); }
            for n in [0i32, -1, 1, 64, -65, i32::MAX, i32::MIN] { corpus.push(("\"int\"", Value::Int(n))); }
            for x in [0.0f64, -0.0, 1.5, f64::INFINITY, f64::NEG_INFINITY, f64::MIN_POSITIVE, f64::from_bits(0x7ff8_0000_0000_0001), f64::from_bits(0xfff0_0000_0000_0001)] { corpus.push(("\"double\"", Value::Double(x))); }
            for x in [0.0f32, -0.0, 2.5, f32::INFINITY, f32::from_bits(0x7fc0_0001), f32::from_bits(0xff80_0001)] { corpus.push(("\"float\"", Value::Float(x))); }
            corpus.push(("\"boolean\"", Value::Boolean(true))); corpus.push(("\"boolean\"", Value::Boolean(false))); corpus.push(("\"null\"", Value::Null));
            for s in ["", "a", "h\u{e9}llo \u{1F600}", &"x".repeat(64), &"y".repeat(8192)] { corpus.push(("\"string\"", Value::String(s.to_string()))); }
            for n in [0usize, 1, 63, 64, 8191, 8192] { corpus.push(("\"bytes\"", Value::Bytes(vec![0xA5; n]))); }
            corpus.push(("[\"null\",\"long\"]", Value::Union(0, Box::new(Value::Null)))); corpus.push(("[\"null\",\"long\"]", Value::Union(1, Box::new(Value::Long(-3)))));
            corpus.push(("[\"long\",\"null\"]", Value::Union(1, Box::new(Value::Null)))); corpus.push(("[\"string\",\"null\",\"long\"]", Value::Union(2, Box::new(Value::Long(9)))));
            corpus.push(("{\"type\":\"array\",\"items\":\"null\"}", Value::Array(vec![Value::Null; 5]))); corpus.push(("{\"type\":\"array\",\"items\":\"long\"}", Value::Array(vec![])));
            corpus.push(("{\"type\":\"array\",\"items\":[\"null\",\"string\"]}", Value::Array(vec![Value::Union(1, Box::new(Value::String("q".into()))), Value::Union(0, Box::new(Value::Null))])));
            corpus.push(("{\"type\":\"map\",\"values\":\"long\"}", Value::Map([("a".to_string(), Value::Long(1)), ("".to_string(), Value::Long(-1))].into_iter().collect())));
            corpus.push(("{\"type\":\"enum\",\"name\":\"e\",\"symbols\":[\"A\",\"B\",\"C\"]}", Value::Enum(2, "C".into())));
            corpus.push(("{\"type\":\"fixed\",\"name\":\"f\",\"size\":3}", Value::Fixed(3, vec![1, 2, 3]))); corpus.push(("{\"type\":\"fixed\",\"name\":\"z\",\"size\":0}", Value::Fixed(0, vec![])));
            corpus.push(("{\"type\":\"record\",\"name\":\"e\",\"fields\":[]}", Value::Record(vec![])));
            corpus.push(("{\"type\":\"record\",\"name\":\"n.r\",\"fields\":[{\"name\":\"a\",\"type\":\"long\"},{\"name\":\"b\",\"type\":{\"type\":\"record\",\"name\":\"i\",\"fields\":[{\"name\":\"c\",\"type\":[\"null\",\"n.r\"]}]}}]}",
                Value::Record(vec![("a".into(), Value::Long(1)), ("b".into(), Value::Record(vec![("c".into(), Value::Union(1, Box::new(Value::Record(vec![("a".into(), Value::Long(2)), ("b".into(), Value::Record(vec![("c".into(), Value::Union(0, Box::new(Value::Null)))]))]))))]))])));
            corpus.push(("{\"type\":\"int\",\"logicalType\":\"date\"}", Value::Date(-5))); corpus.push(("{\"type\":\"long\",\"logicalType\":\"timestamp-micros\"}", Value::TimestampMicros(i64::MIN)));
            corpus.push(("{\"type\":\"fixed\",\"name\":\"d\",\"size\":12,\"logicalType\":\"duration\"}", Value::Duration(apache_avro::Duration::new(apache_avro::Months::new(u32::MAX), apache_avro::Days::new(1), apache_avro::Millis::new(0x01020304)))));
            corpus.push(("{\"type\":\"string\",\"logicalType\":\"uuid\"}", Value::Uuid(apache_avro::Uuid::from_u128(0x0123456789abcdef0123456789abcdef))));
            for (st, v) in corpus {
                let schema = Schema::parse_str(st).map_err(|e| format!("{st}: {e}"))?;
                let w = apache_avro::writer::datum::GenericDatumWriter::builder(&schema).build().map_err(|e| e.to_string())?;
                let wn = apache_avro::writer::datum::GenericDatumWriter::builder(&schema).validate(false).build().map_err(|e| e.to_string())?;
                let mut a = Vec::new(); let na = w.write_value_ref(&mut a, &v).map_err(|e| format!("{st} {v:?}: {e}"))?;
                let mut b = Vec::new(); wn.write_value_ref(&mut b, &v).map_err(|e| format!("{st} {v:?}: {e}"))?;
                if a != b { return Ok(Some(format!("{st}: validating and non-validating writers produce different bytes for {v:?}"))); }
                if na != a.len() { return Ok(Some(format!("{st}: write_value_ref returned {na} for {} bytes ({v:?})", a.len()))); }
                let rdr = apache_avro::reader::datum::GenericDatumReader::builder(&schema).build().map_err(|e| e.to_string())?;
                let two: Vec<u8> = [a.clone(), a.clone(), vec![0xEE]].concat();
                let mut rd = &two[..];
                for i in 0..2 {
                    match rdr.read_value(&mut rd) {
                        Ok(back) => { let same = match (&back, &v) { (Value::Double(x), Value::Double(y)) => x.to_bits() == y.to_bits(), (Value::Float(x), Value::Float(y)) => x.to_bits() == y.to_bits(), _ => back == v };
                            if !same { return Ok(Some(format!("{st}: {v:?} round-trips to {back:?}"))); }
                            if two.len() - rd.len() != (i + 1) * a.len() { return Ok(Some(format!("{st}: after datum {i} the reader consumed {} bytes, datum length is {}", two.len() - rd.len(), a.len()))); } }
                        Err(e) => return Ok(Some(format!("{st}: encoded {v:?} ({:02x?}) does not decode: {e}", &a[..a.len().min(16)]))),
                    }
                }
            }
            Ok(None)
        }
        // C03/C04/C14/C15: schemas {null, long, string} x codecs {null, deflate} x block sizes {0, 1, default}: write, read back;
        // every cut offset (sampled for long files) gives a true prefix then an error unless on a block boundary
        "container_matrix" => {
            for (st, datum) in [("\"null\"", Value::Null), ("\"long\"", Value::Long(-77)), ("\"string\"", Value::String("abcdefgh".into()))] {
                let schema = Schema::parse_str(st).map_err(|e| e.to_string())?;
                for codec in [apache_avro::Codec::Null, apache_avro::Codec::Deflate(Default::default())] {
                    for bs in [0usize, 1, 16000] {
                        let n = 7usize;
                        let mut w = apache_avro::Writer::builder().schema(&schema).writer(Vec::new()).codec(codec).block_size(bs).marker([9u8; 16]).build().map_err(|e| e.to_string())?;
                        let mut ends = Vec::new(); // (file length, values complete) after each flush
                        w.flush().map_err(|e| e.to_string())?; ends.push((w.get_ref().len(), 0usize));
                        for i in 0..n { w.append_value_ref(&datum).map_err(|e| e.to_string())?; if w.get_ref().len() != ends.last().unwrap().0 { ends.push((w.get_ref().len(), i + 1)); } if i == 3 { w.flush().map_err(|e| e.to_string())?; if w.get_ref().len() != ends.last().unwrap().0 { ends.push((w.get_ref().len(), i + 1)); } } }
                        let file = w.into_inner().map_err(|e| e.to_string())?;
                        if file.len() != ends.last().unwrap().0 { ends.push((file.len(), n)); }
                        let what = format!("schema {st} codec {codec:?} block_size {bs}");
                        let rd = apache_avro::Reader::new(&file[..]).map_err(|e| format!("{what}: {e}"))?;
                        match rd.collect::<Result<Vec<Value>, _>>() { Ok(vs) if vs.len() == n && vs.iter().all(|x| *x == datum) => {}, other => return Ok(Some(format!("{what}: wrote {n} values, read back {:?}", other.map(|v| v.len())))) }
                        for c in 0..file.len() {
                            let hdr = ends[0].0;
                            match apache_avro::Reader::new(&file[..c]) {
                                Err(_) => if c >= hdr { return Ok(Some(format!("{what}: cut at {c} (header is {hdr} bytes): opening fails"))); },
                                Ok(rd) => {
                                    if c < hdr { return Ok(Some(format!("{what}: cut at {c} inside the {hdr}-byte header: opening succeeds"))); }
                                    let (mut got, mut err) = (0usize, false);
                                    for it in rd { match it { Ok(_) => got += 1, Err(_) => err = true } }
                                    let mut want = 0; let mut boundary = false;
                                    for (e, k) in &ends { if *e <= c { want = *k; } if *e == c { boundary = true; } }
                                    if got != want || err == boundary { return Ok(Some(format!("{what}: cut at {c} of {}: {got} values (expected {want}), error reported = {err} (block boundary = {boundary})", file.len()))); }
                                }
                            }
                        }
                    }
                }
            }
            Ok(None)
        }
        // C05/C14: arbitrary bytes handed to the container reader (hex): never a panic or a hang (wrapper); `expect` = "error" | "ok"
        "open_container_bytes" => {
            let bytes = jhex(sc, "bytes");
            let r = apache_avro::Reader::new(&bytes[..]).map(|rd| rd.take(1000).collect::<Vec<_>>());
            match (sc["expect"].as_str(), &r) {
                (Some("error"), Ok(items)) if !items.iter().any(|i| i.is_err()) => Ok(Some(format!("the bytes were read as a container file with {} values and no error", items.len()))),
                (Some("ok"), Err(e)) => Ok(Some(format!("a spec-conforming file is rejected: {e}"))),
                _ => Ok(None),
            }
        }
        // C05/C14/C11: systematic single-byte mutations and truncations of valid container files (one per codec name in the header,
        // with a compression level entry) — opening and draining them never panics or hangs (wrapper)
        "container_header_fuzz" => {
            let bs = |b: &[u8]| -> Vec<u8> { let mut o = crate::refimpl::long(b.len() as i64); o.extend_from_slice(b); o };
            for codec in ["null", "deflate", "snappy", "zstandard", "bzip2", "xz", "unknown"] {
                let mut f = b"Obj\x01".to_vec();
                f.extend(crate::refimpl::long(4));
                f.extend(bs(b"avro.schema")); f.extend(bs(b"{\"type\":\"record\",\"name\":\"r\",\"fields\":[{\"name\":\"a\",\"type\":[\"null\",\"long\"]}]}"));
                f.extend(bs(b"avro.codec")); f.extend(bs(codec.as_bytes()));
                f.extend(bs(b"avro.codec.compression_level")); f.extend(bs(&[3]));
                f.extend(bs(b"user")); f.extend(bs(b"x"));
                f.extend(crate::refimpl::long(0)); f.extend_from_slice(&[8u8; 16]);
                let hdr = f.len();
                f.extend(crate::refimpl::long(2)); f.extend(crate::refimpl::long(3)); f.extend_from_slice(&[0, 2, 14]); f.extend_from_slice(&[8u8; 16]);
                for pos in 0..f.len() {
                    for m in 0..6 {
                        let mut g = f.clone();
                        match m { 0 => g[pos] = 0, 1 => g[pos] = 0xff, 2 => g[pos] = 0x80, 3 => g[pos] ^= 1, 4 => g[pos] = g[pos].wrapping_add(1), _ => g.truncate(pos) }
                        if let Ok(rd) = apache_avro::Reader::new(&g[..]) { let _ = rd.user_metadata().len(); let _: Vec<_> = rd.take(50).collect(); }
                    }
                }
                let _ = hdr;
            }
            Ok(None)
        }
        // C04: the metadata map of the header — every user key the writer accepted comes back from Reader::user_metadata() with
        // its bytes (keys merely STARTING with "avro" are not reserved: only the "avro." namespace is); reserved keys are
        // refused by the writer; a hand-built file with an unknown "avro.x" key and user keys split over two map blocks is read
        "container_user_metadata" => {
            let schema = Schema::parse_str("\"long\"").map_err(|e| e.to_string())?;
            let keys: Vec<(&str, Vec<u8>)> = vec![("my.key", b"v1".to_vec()), ("avro_generator", b"gen".to_vec()), ("avrotools.version", vec![1, 2, 3]), ("avr", vec![]), ("AVRO.upper", b"u".to_vec()), ("x", vec![0xff; 300]), ("", b"empty-key".to_vec())];
            let mut w = apache_avro::Writer::builder().schema(&schema).writer(Vec::new()).marker([3u8; 16]).build().map_err(|e| e.to_string())?;
            for (k, v) in &keys { w.add_user_metadata(k.to_string(), v).map_err(|e| format!("add_user_metadata({k:?}): {e}"))?; }
            if w.add_user_metadata("avro.custom".to_string(), b"x").is_ok() { return Ok(Some("the writer accepts a user key in the reserved avro. namespace".into())); }
            w.append_value_ref(&Value::Long(5)).map_err(|e| e.to_string())?;
            let file = w.into_inner().map_err(|e| e.to_string())?;
            let rd = apache_avro::Reader::new(&file[..]).map_err(|e| e.to_string())?;
            for (k, v) in &keys {
                match rd.user_metadata().get(*k) { Some(got) if got == v => {}, other => return Ok(Some(format!("user metadata key {k:?} written with {} byte(s) reads back as {:?}", v.len(), other.map(|b| b.len())))) }
            }
            if rd.user_metadata().len() != keys.len() { return Ok(Some(format!("{} user keys written, {} read: {:?}", keys.len(), rd.user_metadata().len(), rd.user_metadata().keys().collect::<Vec<_>>()))); }
            match rd.collect::<Result<Vec<Value>, _>>() { Ok(v) if v == vec![Value::Long(5)] => {}, other => return Ok(Some(format!("values read back as {other:?}"))) }
            // hand-built header: magic, map in two blocks {avro.schema, avro.future} {avrotools.version, zeta}, end, marker
            let enc_str = |t: &[u8]| -> Vec<u8> { let mut o = crate::refimpl::long(t.len() as i64); o.extend_from_slice(t); o };
            let mut f = b"Obj\x01".to_vec();
            f.extend(crate::refimpl::long(2)); f.extend(enc_str(b"avro.schema")); f.extend(enc_str(b"\"long\"")); f.extend(enc_str(b"avro.future")); f.extend(enc_str(b"?"));
            f.extend(crate::refimpl::long(2)); f.extend(enc_str(b"avrotools.version")); f.extend(enc_str(b"1.12")); f.extend(enc_str(b"zeta")); f.extend(enc_str(b""));
            f.extend(crate::refimpl::long(0)); f.extend_from_slice(&[8u8; 16]);
            f.extend(crate::refimpl::long(1)); f.extend(crate::refimpl::long(1)); f.push(0x0a); f.extend_from_slice(&[8u8; 16]);
            let rd = apache_avro::Reader::new(&f[..]).map_err(|e| format!("hand-built file: {e}"))?;
            let um = rd.user_metadata().clone();
            if um.get("avrotools.version").map(|v| &v[..]) != Some(&b"1.12"[..]) || um.get("zeta").map(|v| v.len()) != Some(0) || um.len() != 2 {
                return Ok(Some(format!("hand-built file with user keys avrotools.version and zeta: user_metadata() = {:?}", um.keys().collect::<Vec<_>>())));
            }
            match rd.collect::<Result<Vec<Value>, _>>() { Ok(v) if v == vec![Value::Long(5)] => Ok(None), other => Ok(Some(format!("hand-built file: values read as {other:?}"))) }
        }
        // C03/C04: files written by the library, read by an INDEPENDENT parser of the container layout (refimpl::parse_container):
        // header = magic, metadata with avro.schema (the writer schema) and avro.codec, marker; every block = count, size of the
        // stored payload, payload, the same marker; the items of all blocks, in order, are exactly the appended values; no empty
        // block; histories of append / flush with every block size and the null and deflate codecs (deflate inflated with miniz)
        "container_independent_reader" => {
            let cases: Vec<(&str, Vec<Value>)> = vec![
                ("\"long\"", (0..40).map(|i| Value::Long(i * 1000 - 7)).collect()),
                ("\"string\"", (0..25).map(|i| Value::String("s".repeat(i * 3))).collect()),
                ("\"null\"", vec![Value::Null; 9]),
                ("{\"type\":\"record\",\"name\":\"r\",\"fields\":[{\"name\":\"a\",\"type\":\"long\"},{\"name\":\"b\",\"type\":\"string\"}]}", (0..12).map(|i| Value::Record(vec![("a".into(), Value::Long(i)), ("b".into(), Value::String(format!("v{i}")))])).collect()),
            ];
            for (st, vals) in cases {
                let schema = Schema::parse_str(st).map_err(|e| e.to_string())?;
                for codec_name in ["null", "deflate"] {
                    for bs in [0usize, 1, 50, 16000] {
                        for flush_every in [0usize, 1, 7] {
                            let mut w = apache_avro::Writer::builder().schema(&schema).writer(Vec::new()).codec(parse_codec(codec_name)).block_size(bs).build().map_err(|e| e.to_string())?;
                            w.add_user_metadata("who".to_string(), b"me").map_err(|e| e.to_string())?;
                            for (i, v) in vals.iter().enumerate() { w.append_value_ref(v).map_err(|e| e.to_string())?; if flush_every > 0 && (i + 1) % flush_every == 0 { w.flush().map_err(|e| e.to_string())?; } }
                            let file = w.into_inner().map_err(|e| e.to_string())?;
                            let what = format!("schema {st} codec {codec_name} block_size {bs} flush every {flush_every}");
                            let pc = match crate::refimpl::parse_container(&file) { Ok(p) => p, Err(e) => return Ok(Some(format!("{what}: the file is not a spec-conforming container: {e}"))) };
                            let get = |k: &str| pc.meta.iter().find(|(n, _)| n == k).map(|(_, v)| v.clone());
                            match get("avro.schema").and_then(|j| String::from_utf8(j).ok()).and_then(|j| Schema::parse_str(&j).ok()) {
                                Some(sw) if sw.canonical_form() == schema.canonical_form() => {}
                                other => return Ok(Some(format!("{what}: avro.schema in the header is {:?}", other.map(|s| s.canonical_form())))),
                            }
                            let codec_meta = get("avro.codec").map(|v| String::from_utf8_lossy(&v).to_string()).unwrap_or("null".into());
                            if codec_meta != codec_name { return Ok(Some(format!("{what}: avro.codec in the header is {codec_meta:?}"))); }
                            if get("who") != Some(b"me".to_vec()) { return Ok(Some(format!("{what}: user metadata lost"))); }
                            let mut got: Vec<Value> = Vec::new();
                            for (bi, (count, payload)) in pc.blocks.iter().enumerate() {
                                if *count == 0 { return Ok(Some(format!("{what}: block {bi} is empty (count 0)"))); }
                                let raw = if codec_name == "deflate" { match miniz_oxide::inflate::decompress_to_vec(payload) { Ok(r) => r, Err(e) => return Ok(Some(format!("{what}: block {bi} payload is not a raw deflate stream: {e:?}"))) } } else { payload.clone() };
                                let mut rd = &raw[..];
                                for _ in 0..*count { match apache_avro::from_avro_datum(&schema, &mut rd, None) { Ok(v) => got.push(v), Err(e) => return Ok(Some(format!("{what}: block {bi} says {count} objects but its payload does not hold them: {e}"))) } }
                                if !rd.is_empty() { return Ok(Some(format!("{what}: block {bi} has {} byte(s) after its {count} objects", rd.len()))); }
                            }
                            if got != vals { return Ok(Some(format!("{what}: appended {} values, an independent reader finds {} (first difference at {:?})", vals.len(), got.len(), got.iter().zip(vals.iter()).position(|(a, b)| a != b)))); }
                            // C03 "reopening the output later to append with the original sync marker": the continued file is ONE container
                            // (one header) holding the old values followed by the new ones
                            if flush_every == 0 && bs == 16000 {
                                let marker = apache_avro::read_marker(&file);
                                if marker != pc.marker { return Ok(Some(format!("{what}: read_marker gives {:02x?}, the header's marker is {:02x?}", marker, pc.marker))); }
                                let mut w2 = apache_avro::Writer::append_to_with_codec(&schema, file.clone(), parse_codec(codec_name), marker).map_err(|e| e.to_string())?;
                                for v in vals.iter().take(3) { w2.append_value_ref(v).map_err(|e| e.to_string())?; }
                                let file2 = w2.into_inner().map_err(|e| e.to_string())?;
                                if file2.len() <= file.len() || file2[..file.len()] != file[..] { return Ok(Some(format!("{what}: appending to the reopened output changed or dropped the bytes already there"))); }
                                let pc2 = match crate::refimpl::parse_container(&file2) { Ok(p) => p, Err(e) => return Ok(Some(format!("{what}: after append_to the file is not a spec-conforming container: {e}"))) };
                                let total: i64 = pc2.blocks.iter().map(|(c, _)| *c).sum();
                                if total as usize != vals.len() + vals.len().min(3) { return Ok(Some(format!("{what}: after append_to the blocks hold {total} objects, {} were appended in all", vals.len() + vals.len().min(3)))); }
                                match apache_avro::Reader::new(&file2[..]).map_err(|e| e.to_string()).and_then(|rd| rd.collect::<Result<Vec<Value>, _>>().map_err(|e| e.to_string())) {
                                    Ok(vs) if vs.len() == total as usize && vs[..vals.len()] == vals[..] && vs[vals.len()..] == vals[..vals.len().min(3)] => {}
                                    other => return Ok(Some(format!("{what}: after append_to the library reads {:?}", other.map(|v| v.len())))),
                                }
                            }
                        }
                    }
                }
            }
            Ok(None)
        }
        // C15/C04: every codec x files whose blocks shrink and grow (a later block's compressed bytes shorter than the previous
        // block's decompressed bytes, and the reverse) x compressible and incompressible payloads: what was written is read back
        "container_codec_blocks" => {
            let schema = Schema::parse_str("\"string\"").map_err(|e| e.to_string())?;
            let codecs: Vec<apache_avro::Codec> = vec![apache_avro::Codec::Null, apache_avro::Codec::Deflate(Default::default()), apache_avro::Codec::Snappy,
                apache_avro::Codec::Zstandard(Default::default()), apache_avro::Codec::Bzip2(Default::default()), apache_avro::Codec::Xz(Default::default())];
            let mut x = 0x9E3779B97F4A7C15u64;
            let mut noise = |n: usize| -> String { (0..n).map(|_| { x ^= x << 13; x ^= x >> 7; x ^= x << 17; (b'!' + (x % 90) as u8) as char }).collect() };
            for codec in codecs {
                for layout in [vec![200usize, 1, 50, 1, 0, 3], vec![1, 200, 1], vec![3], vec![1, 1, 1, 1]] {
                    let mut w = apache_avro::Writer::builder().schema(&schema).writer(Vec::new()).codec(codec).marker([5u8; 16]).build().map_err(|e| e.to_string())?;
                    let mut all = Vec::new();
                    for (bi, k) in layout.iter().enumerate() {
                        for j in 0..*k {
                            let v = if (bi + j) % 3 == 0 { noise(40 + j % 7) } else { format!("record-{bi}-{j}-{}", "z".repeat(j % 50)) };
                            w.append_value_ref(&Value::String(v.clone())).map_err(|e| e.to_string())?;
                            all.push(Value::String(v));
                        }
                        w.flush().map_err(|e| e.to_string())?;
                    }
                    let file = w.into_inner().map_err(|e| e.to_string())?;
                    let rd = apache_avro::Reader::new(&file[..]).map_err(|e| format!("{codec:?}: {e}"))?;
                    match rd.collect::<Result<Vec<Value>, _>>() {
                        Ok(vs) if vs == all => {}
                        Ok(vs) => return Ok(Some(format!("codec {codec:?} blocks {layout:?}: wrote {} values, read back {} (first difference at {:?})", all.len(), vs.len(), vs.iter().zip(all.iter()).position(|(a, b)| a != b)))),
                        Err(e) => return Ok(Some(format!("codec {codec:?} blocks {layout:?}: wrote {} values, reading fails: {e}", all.len()))),
                    }
                    let rd = apache_avro::Reader::new(&file[..]).map_err(|e| format!("{codec:?}: {e}"))?;
                    match rd.into_deser_iter::<String>().collect::<Result<Vec<String>, _>>() {
                        Ok(vs) if vs.len() == all.len() && vs.iter().zip(all.iter()).all(|(a, b)| Value::String(a.clone()) == *b) => {}
                        other => return Ok(Some(format!("codec {codec:?} blocks {layout:?} (serde iterator): wrote {} values, read back {:?}", all.len(), other.map(|v| v.len()).map_err(|e| e.to_string())))),
                    }
                }
            }
            Ok(None)
        }
        // C01/C02: decimals against an independent reference — the bytes of a decimal are the big-endian two's-complement form of
        // the unscaled integer (Avro spec), sign-extended to the fixed width; every value at and around each byte-width boundary,
        // written at its minimal width and wider, under bytes- and fixed-backed schemas, and through Decimal's byte accessors
        "decimal_reference" => {
            let mut vals: Vec<i64> = vec![0, 1, -1, 2, -2];
            for k in [7u32, 8, 15, 16, 23, 24, 31, 32, 39, 47, 55, 62] { let p = 1i64 << k; for d in [-2i64, -1, 0, 1, 2] { vals.push(p + d); vals.push(-p + d); } }
            let minimal = |v: i64| -> Vec<u8> { let b = v.to_be_bytes(); let mut i = 0; while i < 7 && ((b[i] == 0x00 && b[i + 1] < 0x80) || (b[i] == 0xFF && b[i + 1] >= 0x80)) { i += 1; } b[i..].to_vec() };
            for v in vals {
                let min = minimal(v);
                for width in [min.len(), min.len() + 1, 8, 9, 12] {
                    if width < min.len() { continue; }
                    let mut want = vec![if v < 0 { 0xFFu8 } else { 0x00 }; width - min.len()]; want.extend_from_slice(&min);
                    // fixed-backed
                    let fx = Schema::parse_str(&format!("{{\"type\":\"fixed\",\"name\":\"d\",\"size\":{width},\"logicalType\":\"decimal\",\"precision\":{},\"scale\":0}}", (width * 2).max(1))).map_err(|e| e.to_string())?;
                    let dec = apache_avro::Decimal::from(&min);
                    match apache_avro::to_avro_datum(&fx, Value::Decimal(dec.clone())) {
                        Ok(bytes) => if bytes != want { return Ok(Some(format!("unscaled {v} (minimal form {:02x?}) under fixed({width}) decimal is written as {:02x?}; two's complement sign-extended to {width} bytes is {:02x?}", min, bytes, want))); },
                        Err(e) => return Ok(Some(format!("unscaled {v} under fixed({width}) decimal: {e}"))),
                    }
                    // a Decimal built from the sign-padded form exposes exactly those bytes, and writes them under a bytes-backed schema
                    let padded = apache_avro::Decimal::from(&want);
                    match <Vec<u8>>::try_from(&padded) { Ok(b) if b == want => {}, other => return Ok(Some(format!("Decimal::from({:02x?}) exposes {:02x?}", want, other.map_err(|e| e.to_string())))) }
                    let by = Schema::parse_str(&format!("{{\"type\":\"bytes\",\"logicalType\":\"decimal\",\"precision\":{},\"scale\":0}}", (width * 3).max(1))).map_err(|e| e.to_string())?;
                    match apache_avro::to_avro_datum(&by, Value::Decimal(padded.clone())) {
                        Ok(bytes) => { let mut w2 = crate::refimpl::long(width as i64); w2.extend_from_slice(&want); if bytes != w2 { return Ok(Some(format!("Decimal::from({:02x?}) under bytes decimal is written as {:02x?}", want, bytes))); }
                            match apache_avro::from_avro_datum(&by, &mut &bytes[..], None) { Ok(Value::Decimal(back)) if back == padded => {}, other => return Ok(Some(format!("bytes decimal {:02x?} reads back as {other:?}", want))) } },
                        Err(e) => return Ok(Some(format!("Decimal::from({:02x?}) under bytes decimal: {e}", want))),
                    }
                }
            }
            Ok(None)
        }
        // C01/C02: big-decimal values with scales at and beyond the i32 range round-trip (compared as (unscaled, scale))
        "bigdecimal_scales" => {
            use std::str::FromStr;
            let schema = Schema::parse_str("{\"type\":\"bytes\",\"logicalType\":\"big-decimal\"}").map_err(|e| e.to_string())?;
            for text in ["0", "-1.5", "12345e-2", "12345e-2147483647", "12345e-2147483648", "12345e-4294967298", "-7e2147483649", "99999999999999999999999999999e-9000000000"] {
                let d = apache_avro::BigDecimal::from_str(text).map_err(|e| format!("{text}: {e}"))?;
                let bytes = apache_avro::to_avro_datum(&schema, Value::BigDecimal(d.clone())).map_err(|e| e.to_string())?;
                match apache_avro::from_avro_datum(&schema, &mut &bytes[..], None) {
                    Ok(Value::BigDecimal(back)) => if back.as_bigint_and_exponent() != d.as_bigint_and_exponent() { return Ok(Some(format!("big-decimal {text}: (unscaled, scale) {:?} reads back as {:?}", d.as_bigint_and_exponent(), back.as_bigint_and_exponent()))); },
                    other => return Ok(Some(format!("big-decimal {text} reads back as {other:?}"))),
                }
            }
            Ok(None)
        }
        // C05: (fresh process, limit set to `limit`) a collection split over several blocks, each block within the limit but the
        // sum beyond it, must be rejected; a collection within the limit must be accepted
        "limit_multiblock" => {
            let limit = sc["limit"].as_u64().unwrap_or(4096) as usize;
            let _ = apache_avro::util::max_allocation_bytes(limit);
            let schema = Schema::parse_str("{\"type\":\"array\",\"items\":\"null\"}").map_err(|e| e.to_string())?;
            let per_block = (limit / std::mem::size_of::<Value>()).max(2) - 1;
            let mut bytes = Vec::new();
            for _ in 0..8 { hk::zig_i64(per_block as i64, &mut bytes).unwrap(); }
            bytes.push(0);
            if let Ok(Value::Array(items)) = apache_avro::from_avro_datum(&schema, &mut &bytes[..], None) {
                return Ok(Some(format!("limit {limit}: {} input bytes decode to an array of {} values = {} bytes of Value", bytes.len(), items.len(), items.len() * std::mem::size_of::<Value>())));
            }
            let mut small = Vec::new(); hk::zig_i64(per_block as i64, &mut small).unwrap(); small.push(0);
            if apache_avro::from_avro_datum(&schema, &mut &small[..], None).is_err() { return Ok(Some(format!("limit {limit}: a single block of {per_block} nulls (within the limit) is rejected"))); }
            Ok(None)
        }
        k => Err(format!("unknown scenario kind {k:?}")),
    }
}
#[allow(dead_code)]
fn _u(_: &Value) {}


/// one item of `serde_model_matrix`
fn model_item<T: serde::Serialize + serde::de::DeserializeOwned + PartialEq + std::fmt::Debug>(st: &str, v: &T, expect: Value) -> Result<Option<String>, String> {
    let schema = Schema::parse_str(st).map_err(|e| format!("{st}: {e}"))?;
    let w = apache_avro::writer::datum::GenericDatumWriter::builder(&schema).build().map_err(|e| e.to_string())?;
    let mut want = Vec::new();
    w.write_value_ref(&mut want, &expect).map_err(|e| format!("{st}: the expected value {expect:?} does not encode: {e}"))?;
    let mut got = Vec::new();
    let n = match w.write_ser(&mut got, v) { Ok(n) => n, Err(e) => return Ok(Some(format!("schema {st}: write_ser({v:?}) fails: {e}"))) };
    if got != want { return Ok(Some(format!("schema {st}: write_ser({v:?}) = {:02x?}, the generic encoder writes {expect:?} as {:02x?}", got, want))); }
    if n != got.len() { return Ok(Some(format!("schema {st}: write_ser({v:?}) returned {n} for {} bytes", got.len()))); }
    let rd = apache_avro::reader::datum::GenericDatumReader::builder(&schema).build().map_err(|e| e.to_string())?;
    let mut r = &got[..];
    match rd.read_deser::<T>(&mut r) {
        Ok(back) if back == *v && r.is_empty() => Ok(None),
        other => Ok(Some(format!("schema {st}: read_deser of {:02x?} gives {other:?} ({} byte(s) left), written from {v:?}", got, r.len()))),
    }
}

/// one corpus item of `faulty_sink_matrix`
fn matrix_item<T: serde::Serialize>(st: &str, jv: &T, ref_value: Value) -> Result<Option<String>, String> {
    let schema = Schema::parse_str(st).map_err(|e| e.to_string())?;
    // path 0 = generic (Value), 1.. = serde with a target block size
    for (pi, tbs) in [(0usize, None), (1, None), (2, Some(0usize)), (3, Some(32usize)), (4, Some(400usize)), (5, Some(65536usize))] {
        let w = apache_avro::writer::datum::GenericDatumWriter::builder(&schema).maybe_target_block_size(tbs).build().map_err(|e| e.to_string())?;
        let mut good = Vec::new();
        let n_good = if pi == 0 { w.write_value_ref(&mut good, &ref_value) } else { w.write_ser(&mut good, jv) }.map_err(|e| format!("{st}: {e}"))?;
        if n_good != good.len() { return Ok(Some(format!("{st} path {pi} tbs={tbs:?}: Ok({n_good}) for {} bytes in memory", good.len()))); }
        let mut rd = &good[..];
        match apache_avro::from_avro_datum(&schema, &mut rd, None) {
            Ok(v) if v == ref_value && rd.is_empty() => {}
            other => return Ok(Some(format!("{st} path {pi} tbs={tbs:?}: the in-memory bytes {:02x?} do not read back as the value written: {other:?} ({} bytes left)", &good[..good.len().min(48)], rd.len()))),
        }
        for accept in [1usize, 2, 3, 7, usize::MAX] {
            let run = |fail_at: Option<usize>, interrupt_at: Option<usize>| -> (Result<usize, String>, Vec<u8>, usize) {
                let mut sink = MatrixSink { data: Vec::new(), accept, fail_at, interrupt_at, calls: 0 };
                let r = if pi == 0 { w.write_value_ref(&mut sink, &ref_value) } else { w.write_ser(&mut sink, jv) };
                (r.map_err(|e| e.to_string()), sink.data, sink.calls)
            };
            let (_, _, calls) = run(None, None);
            let mut modes: Vec<(Option<usize>, Option<usize>)> = vec![(None, None)];
            for i in 0..calls.min(400) { modes.push((Some(i), None)); modes.push((None, Some(i))); }
            for (fa, ia) in modes {
                let (r, data, _) = run(fa, ia);
                if let Ok(n) = r {
                    if data != good || n != good.len() {
                        return Ok(Some(format!("schema {st} path {} tbs={tbs:?} accept={accept} fail_at={fa:?} interrupt_at={ia:?}: Ok({n}) but the sink holds {} bytes {:02x?}, an in-memory buffer {} bytes {:02x?}",
                            if pi == 0 { "write_value_ref" } else { "write_ser" }, data.len(), &data[..data.len().min(24)], good.len(), &good[..good.len().min(24)])));
                    }
                }
            }
        }
    }
    Ok(None)
}

/// C07: validate(value, schema) decides; if it accepts, the datum, container and single-object writers must write the value
/// and the bytes must decode to its canonical form; if it rejects, the validating writer must fail without output
fn validate_write_check(schema: &Schema, value: &Value) -> Result<Option<String>, String> {
            let w = apache_avro::writer::datum::GenericDatumWriter::builder(schema).build().map_err(|e| e.to_string())?;
            let mut out = Vec::new();
            let res = w.write_value_ref(&mut out, value);
            if value.validate(schema) {
                if let Err(e) = res { return Ok(Some(format!("validate accepts {value:?} but the datum writer fails: {e} (after writing {} bytes)", out.len()))); }
                let mut rd = &out[..];
                match apache_avro::from_avro_datum(schema, &mut rd, None) {
                    Ok(back) => {
                        if !rd.is_empty() { return Ok(Some(format!("bytes {:02x?} are not exactly one datum", out))); }
                        if !back.validate(schema) { return Ok(Some(format!("decoded {back:?} does not validate"))); }
                        if let Ok(canon) = value.clone().resolve(schema) { if canon != back { return Ok(Some(format!("written bytes decode to {back:?}, the value's canonical form is {canon:?}"))); } }
                    }
                    Err(e) => return Ok(Some(format!("validate accepts {value:?}, written bytes {:02x?} do not decode: {e}", out))),
                }
                // container and single-object writers must accept it too
                let mut cw = apache_avro::Writer::new(schema, Vec::new()).map_err(|e| e.to_string())?;
                if let Err(e) = cw.append_value_ref(value) { return Ok(Some(format!("validate accepts the value but Writer::append_value_ref fails: {e}"))); }
                let mut sw = apache_avro::GenericSingleObjectWriter::new_with_capacity(schema, 32).map_err(|e| e.to_string())?;
                if let Err(e) = sw.write_value_ref(value, &mut Vec::new()) { return Ok(Some(format!("validate accepts the value but the single-object writer fails: {e}"))); }
            } else {
                if res.is_ok() { return Ok(Some(format!("validate rejects {value:?} but the validating writer returned Ok"))); }
                if !out.is_empty() { return Ok(Some(format!("validate rejects the value but {} byte(s) reached the output", out.len()))); }
            }
            Ok(None)
        }

/// structural well-formedness of a decoded value: a fixed carries exactly as many bytes as it says
fn value_ill_formed(v: &Value) -> Option<String> {
    match v {
        Value::Fixed(n, b) => if *n != b.len() { Some(format!("Fixed({n}, ..) holds {} byte(s)", b.len())) } else { None },
        Value::Union(_, b) => value_ill_formed(b),
        Value::Array(items) => items.iter().find_map(value_ill_formed),
        Value::Map(m) => m.values().find_map(value_ill_formed),
        Value::Record(fs) => fs.iter().find_map(|(_, x)| value_ill_formed(x)),
        _ => None,
    }
}

pub fn parse_codec(name: &str) -> apache_avro::Codec {
    // "<codec>:<level>" selects a compression level
    if let Some((c, l)) = name.split_once(':') {
        let l: u8 = l.parse().unwrap_or(0);
        return match c {
            "zstandard" => apache_avro::Codec::Zstandard(apache_avro::ZstandardSettings::new(l)),
            "bzip2" => apache_avro::Codec::Bzip2(apache_avro::Bzip2Settings::new(l)),
            "xz" => apache_avro::Codec::Xz(apache_avro::XzSettings::new(l)),
            "deflate" => apache_avro::Codec::Deflate(apache_avro::DeflateSettings::new(match l { 0 => miniz_oxide::deflate::CompressionLevel::NoCompression, 1 => miniz_oxide::deflate::CompressionLevel::BestSpeed, 9 => miniz_oxide::deflate::CompressionLevel::BestCompression, 10 => miniz_oxide::deflate::CompressionLevel::UberCompression, _ => miniz_oxide::deflate::CompressionLevel::DefaultLevel })),
            _ => apache_avro::Codec::Null,
        };
    }
    match name {
        "deflate" => apache_avro::Codec::Deflate(Default::default()),
        "snappy" => apache_avro::Codec::Snappy,
        "zstandard" => apache_avro::Codec::Zstandard(Default::default()),
        "bzip2" => apache_avro::Codec::Bzip2(Default::default()),
        "xz" => apache_avro::Codec::Xz(Default::default()),
        _ => apache_avro::Codec::Null,
    }
}

pub struct FaultySink { pub data: Vec<u8>, pub accept: usize, pub fail_at: Option<usize>, pub calls: usize }
/// like FaultySink, but call `interrupt_at` fails with ErrorKind::Interrupted (std's write_all retries those)
pub struct MatrixSink { pub data: Vec<u8>, pub accept: usize, pub fail_at: Option<usize>, pub interrupt_at: Option<usize>, pub calls: usize }
impl std::io::Write for MatrixSink {
    fn write(&mut self, buf: &[u8]) -> std::io::Result<usize> {
        let c = self.calls; self.calls += 1;
        if Some(c) == self.fail_at { return Err(std::io::Error::other("injected")); }
        if Some(c) == self.interrupt_at { return Err(std::io::Error::new(std::io::ErrorKind::Interrupted, "injected interrupt")); }
        let n = buf.len().min(self.accept.max(1));
        self.data.extend_from_slice(&buf[..n]);
        Ok(n)
    }
    fn flush(&mut self) -> std::io::Result<()> {
        let c = self.calls; self.calls += 1;
        if Some(c) == self.fail_at { return Err(std::io::Error::other("injected")); }
        Ok(())
    }
}
// (a sink that fails exactly at call `fail_at` and works again afterwards: retries on the same writer are part of C13's histories)
impl std::io::Write for FaultySink {
    fn write(&mut self, buf: &[u8]) -> std::io::Result<usize> {
        let c = self.calls; self.calls += 1;
        if Some(c) == self.fail_at { return Err(std::io::Error::other("injected")); }
        let n = buf.len().min(self.accept.max(1));
        self.data.extend_from_slice(&buf[..n]);
        Ok(n)
    }
    fn flush(&mut self) -> std::io::Result<()> {
        let c = self.calls; self.calls += 1;
        if Some(c) == self.fail_at { return Err(std::io::Error::other("injected")); }
        Ok(())
    }
}
