//! replay — runs a recorded scenario against the REAL apache-avro crate (built from /repo's working tree with
//! the hook feature) and evaluates the executable form of the violated postcondition.
//! exit 1 + "REPRODUCED ..." when the real code exhibits the violation, exit 0 + "NOT-REPRODUCED" otherwise.
use apache_avro::{__verif_hooks as hk, Schema, types::Value};
use serde_json::Value as J;
use std::collections::HashMap;

mod refimpl;
mod scenarios;

fn hex(s: &str) -> Vec<u8> {
    (0..s.len() / 2).map(|i| u8::from_str_radix(&s[2 * i..2 * i + 2], 16).unwrap()).collect()
}

fn main() {
    let args: Vec<String> = std::env::args().collect();
    if args.len() < 2 {
        eprintln!("usage: replay <file.json> | replay --scenario '<json>'");
        std::process::exit(2);
    }
    let text = if args[1] == "--scenario" { args[2].clone() } else { std::fs::read_to_string(&args[1]).expect("read replay file") };
    let j: J = serde_json::from_str(&text).expect("json");
    let sc = if j.get("counterexample").is_some() && !j["counterexample"].is_null() { j["counterexample"]["scenario"].clone() } else { j.clone() };
    if sc.is_null() || sc.get("kind").is_none() {
        println!("NO-SCENARIO: replay file carries no concrete input (obligation: {})", j.get("obligation").map(|x| x.to_string()).unwrap_or_default());
        std::process::exit(0);
    }
    match scenarios::run(&sc) {
        Ok(None) => { println!("NOT-REPRODUCED {}", sc); std::process::exit(0) }
        Ok(Some(msg)) => { println!("REPRODUCED {} :: {}", sc, msg); std::process::exit(1) }
        Err(e) => { println!("REPLAY-ERROR {}", e); std::process::exit(2) }
    }
}

pub fn jhex(j: &J, k: &str) -> Vec<u8> { hex(j[k].as_str().unwrap_or("")) }
pub fn names() -> HashMap<apache_avro::schema::Name, Schema> { HashMap::new() }
pub fn _unused(_: &Value) { let _ = hk::safe_len(0); }
