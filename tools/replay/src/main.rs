//! replay — runs a recorded scenario against the REAL apache-avro crate (built from /repo's working tree with
//! the hook feature) and evaluates the executable form of the violated postcondition.
//! exit 1 + "REPRODUCED ..." when the real code exhibits the violation, exit 0 + "NOT-REPRODUCED" otherwise.
use apache_avro::{__verif_hooks as hk, Schema, types::Value};
use serde_json::Value as J;
use std::collections::HashMap;

mod refimpl;
mod scenarios;

fn hex(s: &str) -> Vec<u8> {
    (0..s.len() / 2).map(|i| u8::from_str_radix(&s[2 * i..2 * i + 2], 16).unwrap()).collect()
}

fn main() {
    let args: Vec<String> = std::env::args().collect();
    if args.len() < 2 {
        eprintln!("usage: replay <file.json> | replay --scenario '<json>'");
        std::process::exit(2);
    }
    let text = if args[1] == "--scenario" { args[2].clone() } else { std::fs::read_to_string(&args[1]).expect("read replay file") };
    let j: J = serde_json::from_str(&text).expect("json");
    let sc = if j.get("counterexample").is_some() && !j["counterexample"].is_null() { j["counterexample"]["scenario"].clone() } else { j.clone() };
    if sc.is_null() || sc.get("kind").is_none() {
        println!("NO-SCENARIO: replay file carries no concrete input (obligation: {})", j.get("obligation").map(|x| x.to_string()).unwrap_or_default());
        std::process::exit(0);
    }
    match scenarios::run(&sc) {
        Ok(None) => { println!("NOT-REPRODUCED {}", sc); std::process::exit(0) }
        Ok(Some(msg)) => { println!("REPRODUCED {} :: {}", sc, msg); std::process::exit(1) }
        Err(e) => { println!("REPLAY-ERROR {}", e); std::process::exit(2) }
    }
}

pub fn jhex(j: &J, k: &str) -> Vec<u8> { hex(j[k].as_str().unwrap_or("")) }
pub fn names() -> HashMap<apache_avro::schema::Name, Schema> { HashMap::new() }
pub fn _unused(_: &Value) { let _ = hk::safe_len(0); }

/// tiny JSON notation for generic values: null | {"long":n} | {"int":n} | {"string":s} | {"bytes":hex} | {"fixed":hex} | {"boolean":b} |
/// {"float":x} | {"double":x} | {"enum":[i,sym]} | {"union":[i,v]} | {"array":[..]} | {"map":{k:v}} | {"record":[[name,v],..]}
pub fn dsl(j: &J) -> Result<Value, String> {
    if j.is_null() { return Ok(Value::Null); }
    let o = j.as_object().ok_or("value dsl: object expected")?;
    let (k, v) = o.iter().next().ok_or("value dsl: empty object")?;
    Ok(match k.as_str() {
        "long" => Value::Long(v.as_i64().ok_or("long")?), "int" => Value::Int(v.as_i64().ok_or("int")? as i32),
        "string" => Value::String(v.as_str().ok_or("string")?.to_string()), "bytes" => Value::Bytes(hex(v.as_str().unwrap_or(""))),
        "fixed" => { let b = hex(v.as_str().unwrap_or("")); Value::Fixed(b.len(), b) }
        "boolean" => Value::Boolean(v.as_bool().ok_or("bool")?), "float" => Value::Float(v.as_f64().ok_or("float")? as f32), "double" => Value::Double(v.as_f64().ok_or("double")?),
        "enum" => Value::Enum(v[0].as_u64().ok_or("enum idx")? as u32, v[1].as_str().unwrap_or("").to_string()),
        "union" => Value::Union(v[0].as_u64().ok_or("union idx")? as u32, Box::new(dsl(&v[1])?)),
        "array" => Value::Array(v.as_array().ok_or("array")?.iter().map(dsl).collect::<Result<_, _>>()?),
        "map" => Value::Map(v.as_object().ok_or("map")?.iter().map(|(k, x)| Ok((k.clone(), dsl(x)?))).collect::<Result<_, String>>()?),
        "record" => Value::Record(v.as_array().ok_or("record")?.iter().map(|p| Ok((p[0].as_str().unwrap_or("").to_string(), dsl(&p[1])?))).collect::<Result<_, String>>()?),
        other => return Err(format!("value dsl: unknown tag {other}")),
    })
}
