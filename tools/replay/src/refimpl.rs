//! Reference implementations written from the Avro specification (independent of the crate). Used only to
//! CONFIRM a violation, never to grant a pass.
pub fn zigzag(n: i64) -> u64 { if n >= 0 { (n as u64) << 1 } else { (((-(n + 1)) as u64) << 1) + 1 } }
pub fn unzigzag(u: u64) -> i64 { if u % 2 == 0 { (u / 2) as i64 } else { -((u / 2) as i64) - 1 } }
pub fn varint(mut u: u64) -> Vec<u8> {
    let mut v = Vec::new();
    loop { if u < 128 { v.push(u as u8); return v; } v.push((128 + u % 128) as u8); u /= 128; }
}
pub fn long(n: i64) -> Vec<u8> { varint(zigzag(n)) }
#[derive(Debug, PartialEq)]
pub enum VParse { Done(u64, usize), Eof, Overflow }
/// value is reduced mod 2^64 (10th group may carry bits beyond 64)
pub fn vparse(s: &[u8]) -> VParse {
    let mut acc: u128 = 0;
    for j in 0..10 {
        if j >= s.len() { return VParse::Eof; }
        acc += ((s[j] % 128) as u128) << (7 * j);
        if s[j] < 128 { return VParse::Done(acc as u64, j + 1); }
    }
    VParse::Overflow
}

/// CRC-64-AVRO from the Avro specification (fingerprint64 / initFPTable), written independently of the crate
/// CRC-32 (IEEE 802.3, reflected, polynomial 0xEDB88320) — bit by bit, independent of the crate's crc32fast
pub fn crc32(data: &[u8]) -> u32 {
    let mut c: u32 = 0xFFFF_FFFF;
    for &b in data { c ^= b as u32; for _ in 0..8 { c = if c & 1 == 1 { (c >> 1) ^ 0xEDB8_8320 } else { c >> 1 }; } }
    !c
}
pub fn crc64avro(data: &[u8]) -> u64 {
    const EMPTY: u64 = 0xc15d213aa4d7a795;
    let mut table = [0u64; 256];
    for i in 0..256u64 { let mut fp = i; for _ in 0..8 { fp = (fp >> 1) ^ (EMPTY & (0u64.wrapping_sub(fp & 1))); } table[i as usize] = fp; }
    let mut fp = EMPTY;
    for b in data { fp = (fp >> 8) ^ table[((fp ^ *b as u64) & 0xff) as usize]; }
    fp
}

/// Independent parser of the object container file layout, written from the specification ("Object Container Files"):
/// magic "Obj" 1, file metadata (a map<bytes>, any number of blocks, negative counts carry a byte size), 16-byte sync marker,
/// then data blocks: count (long), byte size (long), that many bytes, the marker again. Nothing of the library is used.
pub struct ParsedContainer { pub meta: Vec<(String, Vec<u8>)>, pub marker: [u8; 16], pub blocks: Vec<(i64, Vec<u8>)> }
fn read_long(b: &[u8], pos: &mut usize) -> Result<i64, String> {
    match vparse(&b[*pos..]) { VParse::Done(v, k) => { *pos += k; Ok(unzigzag(v)) }, _ => Err(format!("bad varint at offset {}", *pos)) }
}
fn read_bytes<'a>(b: &'a [u8], pos: &mut usize) -> Result<&'a [u8], String> {
    let n = read_long(b, pos)?;
    if n < 0 || *pos + n as usize > b.len() { return Err(format!("bad length {n} at offset {}", *pos)); }
    let s = &b[*pos..*pos + n as usize]; *pos += n as usize; Ok(s)
}
pub fn parse_container(b: &[u8]) -> Result<ParsedContainer, String> {
    if b.len() < 4 || &b[..4] != b"Obj\x01" { return Err("magic".into()); }
    let mut pos = 4;
    let mut meta = Vec::new();
    loop {
        let mut n = read_long(b, &mut pos)?;
        if n == 0 { break; }
        if n < 0 { n = -n; let _size = read_long(b, &mut pos)?; }
        for _ in 0..n {
            let k = String::from_utf8(read_bytes(b, &mut pos)?.to_vec()).map_err(|e| e.to_string())?;
            let v = read_bytes(b, &mut pos)?.to_vec();
            meta.push((k, v));
        }
    }
    if pos + 16 > b.len() { return Err("header marker truncated".into()); }
    let mut marker = [0u8; 16]; marker.copy_from_slice(&b[pos..pos + 16]); pos += 16;
    let mut blocks = Vec::new();
    while pos < b.len() {
        let count = read_long(b, &mut pos)?;
        let size = read_long(b, &mut pos)?;
        if count < 0 || size < 0 || pos + size as usize + 16 > b.len() { return Err(format!("block with count {count}, size {size} does not fit at offset {pos}")); }
        let payload = b[pos..pos + size as usize].to_vec(); pos += size as usize;
        if b[pos..pos + 16] != marker { return Err(format!("block marker at offset {pos} differs from the header's")); }
        pos += 16;
        blocks.push((count, payload));
    }
    Ok(ParsedContainer { meta, marker, blocks })
}
