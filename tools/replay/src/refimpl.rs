//! Reference implementations written from the Avro specification (independent of the crate). Used only to
//! CONFIRM a violation, never to grant a pass.
pub fn zigzag(n: i64) -> u64 { if n >= 0 { (n as u64) << 1 } else { (((-(n + 1)) as u64) << 1) + 1 } }
pub fn unzigzag(u: u64) -> i64 { if u % 2 == 0 { (u / 2) as i64 } else { -((u / 2) as i64) - 1 } }
pub fn varint(mut u: u64) -> Vec<u8> {
    let mut v = Vec::new();
    loop { if u < 128 { v.push(u as u8); return v; } v.push((128 + u % 128) as u8); u /= 128; }
}
pub fn long(n: i64) -> Vec<u8> { varint(zigzag(n)) }
#[derive(Debug, PartialEq)]
pub enum VParse { Done(u64, usize), Eof, Overflow }
/// value is reduced mod 2^64 (10th group may carry bits beyond 64)
pub fn vparse(s: &[u8]) -> VParse {
    let mut acc: u128 = 0;
    for j in 0..10 {
        if j >= s.len() { return VParse::Eof; }
        acc += ((s[j] % 128) as u128) << (7 * j);
        if s[j] < 128 { return VParse::Done(acc as u64, j + 1); }
    }
    VParse::Overflow
}

/// CRC-64-AVRO from the Avro specification (fingerprint64 / initFPTable), written independently of the crate
pub fn crc64avro(data: &[u8]) -> u64 {
    const EMPTY: u64 = 0xc15d213aa4d7a795;
    let mut table = [0u64; 256];
    for i in 0..256u64 { let mut fp = i; for _ in 0..8 { fp = (fp >> 1) ^ (EMPTY & (0u64.wrapping_sub(fp & 1))); } table[i as usize] = fp; }
    let mut fp = EMPTY;
    for b in data { fp = (fp >> 8) ^ table[((fp ^ *b as u64) & 0xff) as usize]; }
    fp
}
