#!/bin/bash
# run every claimed check (quick tier) and report; evidence/*.json is rewritten by the checks themselves
cd "$(dirname "$0")/.."
tier=${1:-quick}
rc_all=0
for pid in $(python3 -c "import json;print(' '.join(sorted(json.load(open('units/index.json'))['properties'])))"); do
  out=$(./check $pid --tier $tier 2>&1); rc=$?
  echo "[$pid rc=$rc] $(echo "$out" | tail -1 | cut -c1-200)"
  [ $rc -ne 0 ] && rc_all=1
done
exit $rc_all
