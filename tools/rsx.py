#!/usr/bin/env python3
"""rsx — minimal Rust source locator/extractor used by the verification runner.

It does *not* parse Rust fully.  It tokenizes (strings, chars, lifetimes, comments, raw
strings handled) and matches delimiters, which is enough to
  * locate a free function, an inherent method, or a trait-impl method by path,
  * return its signature text and its body text verbatim,
  * locate the k-th loop of a body (source order, nested loops included),
  * lift one arm of a `match` (by scrutinee text and a pattern regex),
  * locate a closure body after an anchor.
Everything returned is a slice of the repository's text; the only normalisation here is
comment removal.  Rewrites are applied by vgen.py and are logged there.
"""
import re
import sys


class LostAnchor(Exception):
    pass


OPEN = {'(': ')', '[': ']', '{': '}'}
CLOSE = {')': '(', ']': '[', '}': '{'}


def tokenize(src):
    """Return list of (kind, text, start, end). kinds: id, num, str, chr, life, punct, com, ws"""
    toks = []
    i, n = 0, len(src)
    while i < n:
        c = src[i]
        if c.isspace():
            j = i
            while j < n and src[j].isspace():
                j += 1
            toks.append(('ws', src[i:j], i, j))
            i = j
        elif src.startswith('//', i):
            j = src.find('\n', i)
            j = n if j < 0 else j
            toks.append(('com', src[i:j], i, j))
            i = j
        elif src.startswith('/*', i):
            depth, j = 1, i + 2
            while j < n and depth:
                if src.startswith('/*', j):
                    depth += 1
                    j += 2
                elif src.startswith('*/', j):
                    depth -= 1
                    j += 2
                else:
                    j += 1
            toks.append(('com', src[i:j], i, j))
            i = j
        elif c == '"' or (c in 'b' and src.startswith('b"', i)):
            j = i + (2 if c == 'b' else 1)
            while j < n and src[j] != '"':
                j += 2 if src[j] == '\\' else 1
            j += 1
            toks.append(('str', src[i:j], i, j))
            i = j
        elif re.match(r'b?r#*"', src[i:i + 8]):
            m = re.match(r'b?r(#*)"', src[i:])
            hashes = m.group(1)
            end = src.find('"' + hashes, i + m.end())
            j = end + 1 + len(hashes)
            toks.append(('str', src[i:j], i, j))
            i = j
        elif c == "'":
            # char literal or lifetime
            m = re.match(r"'(\\.[^']*|[^'\\])'", src[i:])
            if m:
                j = i + m.end()
                toks.append(('chr', src[i:j], i, j))
                i = j
            else:
                m = re.match(r"'[A-Za-z_][A-Za-z0-9_]*", src[i:])
                j = i + (m.end() if m else 1)
                toks.append(('life', src[i:j], i, j))
                i = j
        elif c == 'b' and src.startswith("b'", i):
            m = re.match(r"b'(\\.[^']*|[^'\\])'", src[i:])
            j = i + m.end()
            toks.append(('chr', src[i:j], i, j))
            i = j
        elif c.isalpha() or c == '_':
            j = i
            while j < n and (src[j].isalnum() or src[j] == '_'):
                j += 1
            toks.append(('id', src[i:j], i, j))
            i = j
        elif c.isdigit():
            m = re.match(r'[0-9][0-9a-zA-Z_]*(\.[0-9][0-9a-zA-Z_]*)?', src[i:])
            j = i + m.end()
            toks.append(('num', src[i:j], i, j))
            i = j
        else:
            toks.append(('punct', c, i, i + 1))
            i += 1
    return toks


def strip_comments(src):
    out = []
    for k, t, _, _ in tokenize(src):
        if k == 'com':
            out.append(' ')
        else:
            out.append(t)
    return ''.join(out)


def sig_tokens(src):
    return [t for t in tokenize(src) if t[0] not in ('ws', 'com')]


def match_close(toks, i):
    """toks: significant tokens; toks[i] is an opening delimiter; return index of its closer."""
    depth = 0
    j = i
    while j < len(toks):
        k, t = toks[j][0], toks[j][1]
        if k == 'punct':
            if t in OPEN:
                depth += 1
            elif t in CLOSE:
                depth -= 1
                if depth == 0:
                    return j
        j += 1
    raise LostAnchor('unbalanced delimiters')


def _impl_header_matches(header, want):
    """header: text between `impl` and `{`. want: 'Writer' or '<Rabin as Update>' forms."""
    h = re.sub(r'\s+', ' ', header).strip()
    m = re.match(r'^<\s*(.+?)\s+as\s+(.+)>$', want)
    if m and not re.match(r'^<\s*(\w+)\s+as\s+([\w:]+)\s*>$', want):
        # trait with generic arguments and/or non-identifier self type: compare modulo whitespace and lifetimes
        def norm(x):
            return re.sub(r"\s+|'\w+\s*", '', x)
        ty, tr = norm(m.group(1)), norm(m.group(2))
        hh = norm(re.sub(r'\bwhere\b.*$', '', h))
        return hh.endswith(tr + 'for' + ty) or (tr + 'for' + ty) in hh
    m = re.match(r'^<\s*(\w+)\s+as\s+([\w:]+)\s*>$', want)
    if m:
        ty, tr = m.group(1), m.group(2).split('::')[-1]
        # impl<..> Trait<..> for Ty<..> where ...
        mm = re.search(r'(?:^|[\s>])((?:\w+::)*' + re.escape(tr) + r')\b(?:<[^{]*?>)?\s+for\s+(?:&\s*(?:mut\s+)?)?(?:\w+::)*' + re.escape(ty) + r'\b', h)
        return bool(mm)
    # inherent impl: no ` for `
    hh = re.sub(r'^<.*?>\s*(?=[A-Za-z_&])', '', h) if h.startswith('<') else h
    # drop generic prefix robustly: find last ' for '
    if re.search(r'\bfor\b', h):
        return False
    return bool(re.match(r'^(?:<[^{]*?>\s*)?(?:\w+::)*' + re.escape(want) + r'\b', h)) or bool(re.search(r'(?:^|>\s*)' + re.escape(want) + r'\b', h))


def find_fn(src, path):
    """Locate a function.  path: 'name' | 'Type::name' | '<Type as Trait>::name'.
    Returns dict(sig=..., body=..., start=..., end=..., line=...).  body excludes outer braces."""
    toks = sig_tokens(src)
    if '::' in path and not path.startswith('<'):
        owner, name = path.rsplit('::', 1)
    elif path.startswith('<'):
        m = re.match(r'^(<.*>)::(\w+)$', path)
        owner, name = m.group(1), m.group(2)
    else:
        owner, name = None, path
    # walk tokens tracking impl/mod context
    ctx = []  # stack of (kind, header, close_index)
    i = 0
    found = []
    while i < len(toks):
        k, t = toks[i][0], toks[i][1]
        while ctx and i > ctx[-1][2]:
            ctx.pop()
        if k == 'id' and t == 'impl' and (i == 0 or toks[i - 1][1] not in ('(', '<', ',', ':', '&', '>', '=', '->', '-')) and _at_item_pos(toks, i):
            j = i + 1
            while j < len(toks) and not (toks[j][0] == 'punct' and toks[j][1] in '{;'):
                if toks[j][0] == 'punct' and toks[j][1] in '([':
                    j = match_close(toks, j)
                j += 1
            if j < len(toks) and toks[j][1] == '{':
                header = src[toks[i][3]:toks[j][2]]
                ctx.append(('impl', header, match_close(toks, j)))
                i = j + 1
                continue
        if k == 'id' and t == 'mod' and i + 2 < len(toks) and toks[i + 2][1] == '{':
            modname = toks[i + 1][1]
            close = match_close(toks, i + 2)
            if modname == 'tests' or modname == 'test':
                i = close + 1
                continue
            ctx.append(('mod', modname, close))
            i = i + 3
            continue
        if k == 'id' and t == 'trait' and _at_item_pos(toks, i):
            j = i
            while toks[j][1] != '{' and toks[j][1] != ';':
                j += 1
            if toks[j][1] == '{':
                ctx.append(('trait', toks[i + 1][1], match_close(toks, j)))
                i = j + 1
                continue
        if k == 'id' and t == 'fn' and i + 1 < len(toks) and toks[i + 1][1] == name:
            # find body
            j = i + 2
            while j < len(toks) and not (toks[j][0] == 'punct' and toks[j][1] in '{;'):
                if toks[j][0] == 'punct' and toks[j][1] in '([':
                    j = match_close(toks, j)
                j += 1
            if j < len(toks) and toks[j][1] == '{':
                close = match_close(toks, j)
                impls = [c for c in ctx if c[0] == 'impl']
                ok = False
                if owner is None:
                    ok = not impls and not any(c[0] == 'trait' for c in ctx)
                else:
                    ok = bool(impls) and _impl_header_matches(impls[-1][1], owner)
                if ok:
                    found.append(dict(
                        sig=src[toks[i][2]:toks[j][2]].strip(),
                        body=src[toks[j][3]:toks[close][2]],
                        start=toks[i][2], end=toks[close][3],
                        body_start=toks[j][3], body_end=toks[close][2],
                        line=src.count('\n', 0, toks[i][2]) + 1,
                        end_line=src.count('\n', 0, toks[close][3]) + 1,
                        owner=impls[-1][1].strip() if impls else None))
                i = close + 1
                continue
        if k == 'id' and t == 'fn':
            # skip over other fn bodies (so nested items are not mis-attributed)
            j = i + 1
            while j < len(toks) and not (toks[j][0] == 'punct' and toks[j][1] in '{;'):
                if toks[j][0] == 'punct' and toks[j][1] in '([':
                    j = match_close(toks, j)
                j += 1
            if j < len(toks) and toks[j][1] == '{':
                i = match_close(toks, j) + 1
                continue
        i += 1
    if not found:
        raise LostAnchor('function %s not found' % path)
    if len(found) > 1:
        raise LostAnchor('function %s ambiguous (%d matches)' % (path, len(found)))
    return found[0]


def _at_item_pos(toks, i):
    # previous significant token is one of: start, '}', ';', ']' (attribute), 'pub', ')', 'unsafe', 'default'
    if i == 0:
        return True
    p = toks[i - 1][1]
    return p in ('}', ';', ']', 'pub', ')', 'unsafe', '{')


def param_names(sig):
    """Parameter names of a fn signature text (self included as 'self')."""
    toks = sig_tokens(sig)
    i = 0
    while toks[i][1] != 'fn':
        i += 1
    i += 2
    if toks[i][1] == '<':
        depth = 0
        while True:
            if toks[i][1] == '<':
                depth += 1
            elif toks[i][1] == '>' and toks[i - 1][1] != '-':
                depth -= 1
                if depth == 0:
                    break
            i += 1
        i += 1
    assert toks[i][1] == '(', sig
    close = match_close(toks, i)
    names = []
    j = i + 1
    cur = []
    depth = 0
    parts = []
    while j < close:
        t = toks[j][1]
        if depth == 0 and t == '#' and toks[j + 1][1] == '[':
            # attribute on a parameter (e.g. bon's #[builder(default = ..)]): not part of the name
            j = match_close(toks, j + 1) + 1
            continue
        if toks[j][0] == 'punct' and t in '([{':
            depth += 1
        elif toks[j][0] == 'punct' and t in ')]}':
            depth -= 1
        elif t == '<' and toks[j][0] == 'punct':
            depth += 1
        elif t == '>' and toks[j][0] == 'punct' and toks[j - 1][1] != '-':
            depth -= 1
        if t == ',' and depth == 0:
            parts.append(cur)
            cur = []
        else:
            cur.append(toks[j])
        j += 1
    if cur:
        parts.append(cur)
    for p in parts:
        ids = []
        for tk in p:
            if tk[1] == ':' and tk[0] == 'punct':
                break
            if tk[0] == 'id' and tk[1] not in ('mut', 'ref'):
                ids.append(tk[1])
        # skip attributes like #[...]
        if ids:
            names.append(ids[-1] if ids[-1] == 'self' or len(ids) == 1 else ids[-1])
    return names


def find_loops(body):
    """Return list of dicts for each loop in source order: kw, kw_start, brace_pos (index of '{' in body), close_pos."""
    toks = sig_tokens(body)
    res = []
    for i, (k, t, s, e) in enumerate(toks):
        if k == 'id' and t in ('loop', 'while', 'for'):
            if t == 'for' and i > 0 and toks[i - 1][1] in ('impl', '>', '+'):
                continue  # `impl X for Y`, HRTB — not expected in bodies
            # label?  'a: loop
            # find the body-opening brace: first '{' at paren-depth 0 after kw that is not part of a struct literal —
            # Rust forbids struct literals in loop heads without parens, so first '{' at depth 0 is the body.
            j = i + 1
            depth = 0
            while j < len(toks):
                tt = toks[j][1]
                if toks[j][0] == 'punct' and tt in '([':
                    depth += 1
                elif toks[j][0] == 'punct' and tt in ')]':
                    depth -= 1
                elif toks[j][0] == 'punct' and tt == '{' and depth == 0:
                    break
                j += 1
            if j >= len(toks):
                continue
            close = match_close(toks, j)
            res.append(dict(kw=t, kw_start=s, head=body[e:toks[j][2]].strip(), brace_pos=toks[j][2], close_pos=toks[close][2]))
    return res


def split_match_arms(body, scrutinee_re):
    """Find `match <scrutinee> {` (first whose scrutinee text matches regex) and split its arms.
    Returns list of dict(pat=..., guard=..., expr=..., start, end) with text slices of `body`."""
    toks = sig_tokens(body)
    for i, (k, t, s, e) in enumerate(toks):
        if k == 'id' and t == 'match':
            j = i + 1
            depth = 0
            while j < len(toks):
                tt = toks[j][1]
                if toks[j][0] == 'punct' and tt in '([':
                    depth += 1
                elif toks[j][0] == 'punct' and tt in ')]':
                    depth -= 1
                elif toks[j][0] == 'punct' and tt == '{' and depth == 0:
                    break
                j += 1
            scrut = body[e:toks[j][2]].strip()
            if not re.fullmatch(scrutinee_re, re.sub(r'\s+', ' ', scrut)):
                continue
            close = match_close(toks, j)
            arms = []
            a = j + 1
            while a < close:
                # pattern up to '=>' at depth 0
                p = a
                depth = 0
                while not (depth == 0 and toks[p][1] == '=' and toks[p + 1][1] == '>' and toks[p + 1][2] == toks[p][3]):
                    tt = toks[p][1]
                    if toks[p][0] == 'punct' and tt in '([{':
                        depth += 1
                    elif toks[p][0] == 'punct' and tt in ')]}':
                        depth -= 1
                    p += 1
                pat_text = body[toks[a][2]:toks[p][2]].strip()
                x = p + 2
                if toks[x][1] == '{' and toks[x][0] == 'punct':
                    xc = match_close(toks, x)
                    expr_text = body[toks[x][2]:toks[xc][3]]
                    nxt = xc + 1
                    if nxt < close and toks[nxt][1] == ',':
                        nxt += 1
                    elif nxt < close and toks[nxt][1] in ('.', '?'):
                        # block followed by method chain: treat as expression up to ','
                        y = nxt
                        depth = 0
                        while y < close and not (depth == 0 and toks[y][1] == ','):
                            tt = toks[y][1]
                            if toks[y][0] == 'punct' and tt in '([{':
                                depth += 1
                            elif toks[y][0] == 'punct' and tt in ')]}':
                                depth -= 1
                            y += 1
                        expr_text = body[toks[x][2]:toks[y - 1][3]]
                        nxt = y + 1
                else:
                    y = x
                    depth = 0
                    while y < close and not (depth == 0 and toks[y][1] == ',' and toks[y][0] == 'punct'):
                        tt = toks[y][1]
                        if toks[y][0] == 'punct' and tt in '([{':
                            depth += 1
                        elif toks[y][0] == 'punct' and tt in ')]}':
                            depth -= 1
                        y += 1
                    expr_text = body[toks[x][2]:toks[y - 1][3]]
                    nxt = y + 1
                guard = None
                m = re.search(r'\bif\b', pat_text)
                if m and not pat_text.startswith('if'):
                    guard = pat_text[m.end():].strip()
                    pat_text = pat_text[:m.start()].strip()
                arms.append(dict(pat=pat_text, guard=guard, expr=expr_text))
                a = nxt
            return dict(scrutinee=scrut, arms=arms)
    raise LostAnchor('match on /%s/ not found' % scrutinee_re)


def find_arm(body, scrutinee_re, pat_re):
    m = split_match_arms(body, scrutinee_re)
    hits = [a for a in m['arms'] if re.search(pat_re, re.sub(r'\s+', ' ', a['pat']))]
    if len(hits) != 1:
        raise LostAnchor('arm /%s/ of match /%s/: %d matches' % (pat_re, scrutinee_re, len(hits)))
    return hits[0], m


def ws_insensitive_regex(snippet):
    parts = [re.escape(c) for c in snippet if not c.isspace()]
    return r'\s*'.join(parts)


def find_snippet(text, snippet, occurrence=0):
    """Whitespace-insensitive search; returns (start, end) or None."""
    rx = re.compile(ws_insensitive_regex(snippet))
    ms = list(rx.finditer(text))
    if len(ms) <= occurrence:
        return None
    return ms[occurrence].start(), ms[occurrence].end()


if __name__ == '__main__':
    src = open(sys.argv[1]).read()
    f = find_fn(src, sys.argv[2])
    print(f['sig'])
    print('{' + f['body'] + '}')
    print(param_names(f['sig']))
    print([(l['kw'], l['head']) for l in find_loops(f['body'])])


def _attr_expr_in_range(toks, src, j, close, field, attr, key, what):
    """toks[j] opens the field/parameter list (`{` of a struct, `(` of a fn), toks[close] closes it."""
    k = j + 1
    attrs = []
    while k < close:
        if toks[k][1] == '#' and toks[k + 1][1] == '[':
            c = match_close(toks, k + 1)
            attrs.append((k + 1, c))
            k = c + 1
            continue
        if toks[k][0] == 'id' and toks[k][1] in ('pub', 'mut'):
            k += 1
            if toks[k][1] == '(':
                k = match_close(toks, k) + 1
            continue
        if toks[k][0] == 'id' and k + 1 < close and toks[k + 1][1] == ':':
            fname = toks[k][1]
            if fname == field:
                for (a, c) in attrs:
                    if toks[a + 1][1] == attr and toks[a + 2][1] == '(':
                        pc = match_close(toks, a + 2)
                        start = a + 3
                        depth = 0
                        items = []
                        q = start
                        while q <= pc:
                            tt = toks[q][1]
                            if q == pc or (tt == ',' and depth == 0):
                                items.append((start, q))
                                start = q + 1
                            elif tt in '([{':
                                depth += 1
                            elif tt in ')]}':
                                depth -= 1
                            q += 1
                        for (x, y) in items:
                            if y - x >= 3 and toks[x][1] == key and toks[x + 1][1] == '=':
                                b0, b1 = toks[x + 2][2], toks[y - 1][3]
                                return dict(body=src[b0:b1], b0=b0, b1=b1)
                raise LookupError('%s %s: no #[%s(%s = ..)]' % (what, field, attr, key))
            attrs = []
            depth = 0
            k += 2
            while k < close:
                tt = toks[k][1]
                if tt in '([{<':
                    depth += 1
                elif tt in ')]}>':
                    depth -= 1
                elif tt == ',' and depth <= 0:
                    break
                k += 1
            k += 1
            continue
        k += 1
    raise LookupError('%s has no field/parameter %s' % (what, field))


def find_struct_field_attr(src, struct_name, field, attr, key):
    """Locate `key = <expr>` inside the `#[attr(...)]` attribute of field `field` of `struct struct_name`, or — when
    struct_name is a function path (`Type::f`) — of parameter `field` of that function (attribute-macro arguments such as
    bon's `#[builder(default = <expr>)]` are ordinary expressions that run in the generated constructor).
    Returns dict(body=expr text, line=..., end_line=...) or raises LookupError."""
    if '::' in struct_name:
        f = find_fn(src, struct_name)
        sig = f['sig']
        toks = sig_tokens(sig)
        for i, t in enumerate(toks):
            if t[1] == '(' and i > 0 and toks[i - 1][0] == 'id':
                r = _attr_expr_in_range(toks, sig, i, match_close(toks, i), field, attr, key, 'fn ' + struct_name)
                return dict(body=r['body'], line=f['line'], end_line=f['line'] + sig.count('\n'))
        raise LookupError('fn %s: no parameter list' % struct_name)
    toks = sig_tokens(src)
    for i, t in enumerate(toks):
        if t[0] == 'id' and t[1] == 'struct' and i + 1 < len(toks) and toks[i + 1][1] == struct_name and _at_item_pos(toks, i):
            j = i + 2
            while j < len(toks) and toks[j][1] not in ('{', ';'):
                if toks[j][1] in '([':
                    j = match_close(toks, j)
                j += 1
            if j >= len(toks) or toks[j][1] != '{':
                continue
            r = _attr_expr_in_range(toks, src, j, match_close(toks, j), field, attr, key, 'struct ' + struct_name)
            return dict(body=r['body'], line=src.count('\n', 0, r['b0']) + 1, end_line=src.count('\n', 0, r['b1']) + 1)
    raise LookupError('struct %s not found' % struct_name)
