#!/bin/bash
# Parallel seed regression: N scratch copies (git worktree of /repo + copy of /verif under /tmp/rg/<k>), each worker applies
# its share of the seeded changes to ITS OWN worktree and runs the copied check with VERIF_REPO pointing there.
# Reporting aid only — the registered commands always run /verif against /repo itself.
# usage: tools/seed_regress_par.sh [N] [tier]   -> prints one line per seed, sorted
cd "$(dirname "$0")/.."
N=${1:-4}; tier=${2:-quick}
rm -rf /tmp/rg; mkdir -p /tmp/rg
seeds=(seeded/*/)
for k in $(seq 1 $N); do
  git -C /repo worktree add -q --detach /tmp/rg/$k/repo HEAD || exit 2
  mkdir -p /tmp/rg/$k/verif
  rsync -a --exclude target --exclude build --exclude replays --exclude .git --exclude evidence /verif/ /tmp/rg/$k/verif/
  mkdir -p /tmp/rg/$k/verif/evidence
  sed -i "s#/repo/avro#/tmp/rg/$k/repo/avro#" /tmp/rg/$k/verif/tools/replay/Cargo.toml
done
worker() {
  k=$1; i=0
  for d in "${seeds[@]}"; do
    i=$((i+1)); [ $(( (i-1) % N + 1 )) -ne $k ] && continue
    sid=$(basename $d); pid=${sid%-*}
    patch=/verif/$d/patch.diff; [ -f /verif/$d/patch_ported.diff ] && patch=/verif/$d/patch_ported.diff
    if ! git -C /tmp/rg/$k/repo apply --check $patch 2>/dev/null; then echo "$sid: patch does not apply on current HEAD"; continue; fi
    git -C /tmp/rg/$k/repo apply $patch
    out=$(cd /tmp/rg/$k/verif && VERIF_REPO=/tmp/rg/$k/repo ./check $pid --tier $tier 2>&1); rc=$?
    git -C /tmp/rg/$k/repo checkout -- .
    line=$(echo "$out" | grep -m1 -E "^VIOLATION|^UNDECIDED|^OK" | sed "s#/tmp/rg/$k/verif/replays/##" | cut -c1-170)
    echo "$sid rc=$rc $line"
  done
}
for k in $(seq 1 $N); do worker $k > /tmp/rg/out.$k 2>&1 & done
wait
cat /tmp/rg/out.* | sort
for k in $(seq 1 $N); do git -C /repo worktree remove --force /tmp/rg/$k/repo; done
git -C /repo worktree prune; rm -rf /tmp/rg/*/verif
