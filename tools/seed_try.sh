#!/bin/bash
# seed_try.sh <property id> <patch file> [...more "pid patch" pairs]: run checks on patched SCRATCH copies (worktree of /repo +
# copy of /verif under /tmp/st), leaving /repo untouched. The scratch copy and its build cache are kept between calls
# (remove /tmp/st when done). Reporting aid only.
cd "$(dirname "$0")/.."
mkdir -p /tmp/st
[ -d /tmp/st/repo ] || git -C /repo worktree add -q --detach /tmp/st/repo HEAD || exit 2
git -C /tmp/st/repo checkout -q --detach "$(git -C /repo rev-parse HEAD)"; git -C /tmp/st/repo checkout -- .
mkdir -p /tmp/st/verif
rsync -a --delete --exclude target --exclude build --exclude replays --exclude .git --exclude evidence /verif/ /tmp/st/verif/
mkdir -p /tmp/st/verif/evidence
sed -i "s#/repo/avro#/tmp/st/repo/avro#" /tmp/st/verif/tools/replay/Cargo.toml
while [ $# -ge 2 ]; do
  pid=$1; patch=$2; shift 2
  git -C /tmp/st/repo apply --check "$patch" || { echo "$patch does not apply"; continue; }
  git -C /tmp/st/repo apply "$patch"
  echo "== $pid $(basename $(dirname $patch))"
  (cd /tmp/st/verif && VERIF_REPO=/tmp/st/repo ./check $pid 2>&1) | grep -E "^VIOLATION|^UNDECIDED|^OK|^  (obligation|contracts|note)" | head -4 | cut -c1-420
  git -C /tmp/st/repo checkout -- .
done
