#!/bin/bash
# Apply every seeded change to /repo (working tree only), run the matching check(s), undo. Prints one line per seed.
# usage: tools/seed_regress.sh [quick|thorough]
cd "$(dirname "$0")/.."
tier=${1:-quick}
git -C /repo diff --quiet || { echo "/repo has uncommitted changes"; exit 2; }
for d in seeded/*/; do
  sid=$(basename $d); pid=${sid%-*}
  patch=$d/patch.diff; [ -f $d/patch_ported.diff ] && patch=$d/patch_ported.diff
  if ! git -C /repo apply --check $PWD/$patch 2>/dev/null; then echo "$sid: patch does not apply on current HEAD"; continue; fi
  git -C /repo apply $PWD/$patch
  out=$(./check $pid --tier $tier 2>&1); rc=$?
  git -C /repo checkout -- .
  line=$(echo "$out" | grep -m1 -E "^VIOLATION|^UNDECIDED|^OK" | cut -c1-160)
  echo "$sid rc=$rc $line"
done
