#!/usr/bin/env python3
"""Regenerate MANIFEST.json from units/index.json (single source of truth for claimed properties)."""
import json, os
V = os.path.dirname(os.path.dirname(os.path.abspath(__file__)))
idx = json.load(open(os.path.join(V, 'units', 'index.json')))
na = json.load(open(os.path.join(V, 'units', 'not_applicable.json')))
checks = []
for pid in sorted(idx['properties']):
    p = idx['properties'][pid]
    checks.append({
        'property_id': pid,
        'quick_cmd': './check %s --tier quick' % pid,
        'thorough_cmd': './check %s --tier thorough' % pid,
        'evidence_file': '/verif/evidence/%s.json' % pid,
        'replay_cmd_template': './check %s --replay {path}' % pid,
        'engine': 'verus+kani',
        'level_claimed': {'category': 'proof', 'text': p['level_text'], 'design_ref': p.get('design_ref', 'DESIGN.md §8 ' + pid)},
        'level_note': p['level_note'],
        'technique': p.get('technique', 'contract-based deductive verification: Verus requires/ensures/invariants on functions extracted mechanically from /repo on every run; Kani (CBMC) harnesses on the same extracted text for counterexamples'),
    })
props = [json.loads(l)['id'] for l in open(os.path.join(V, 'properties.jsonl'))]
have = set(idx['properties']) | set(x['property_id'] for x in na)
for pid in props:
    if pid not in have:
        na.append({'property_id': pid, 'reason': 'no unit built yet for this property (planned in DESIGN.md section 6); not claimed until its check exists'})
na.sort(key=lambda x: x['property_id'])
m = {
    'version': 1,
    'setup_cmd': './setup.sh',
    'hooks': {
        'guard': 'cargo feature apache_avro_rs_verif (crate apache-avro)',
        'enable': 'cargo build -p apache-avro --features apache_avro_rs_verif (the replay crate /verif/tools/replay depends on /repo/avro with that feature)',
        'baseline_off_cmd': 'cd /repo && cargo nextest run --workspace --no-fail-fast --test-threads 8 --offline || cargo test --workspace --no-fail-fast --offline',
        'source_commits': idx.get('hook_commits', []),
        'add_only': True,
    },
    'engines': [
        {'name': 'verus', 'path': '/verif/tools/vrun.py', 'serves_properties': sorted(idx['properties']), 'kind_free_text': 'deductive verifier (SMT/Z3), unbounded; contracts in /verif/units/*.vrs spliced onto function bodies extracted from /repo by tools/vgen.py'},
        {'name': 'kani', 'path': '/verif/kani', 'serves_properties': sorted(idx['properties']), 'kind_free_text': 'CBMC-based model checker on the same extracted functions; complete (loop-free / fully unwound) harnesses give counterexamples; bounded harnesses labelled bounded'},
    ],
    'checks': checks,
    'not_applicable': na,
    'notes': 'Exit 2 = undecided (lost anchor, unsupported construct, solver limit); never printed as VIOLATION. known_findings.json lists recorded defects.',
}
json.dump(m, open(os.path.join(V, 'MANIFEST.json'), 'w'), indent=1)
print('MANIFEST.json: %d checks, %d not_applicable' % (len(checks), len(na)))
