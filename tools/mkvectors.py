#!/usr/bin/env python3
"""Independent reference encoder for Avro binary datums, written from the specification (not from the library).
Generates conformance vectors (schema, value in the replay DSL, hex, alternative encodings) into units/probes.json."""
import json, struct, sys, os

def zz(n): return ((n << 1) ^ (n >> 63)) & 0xFFFFFFFFFFFFFFFF
def varint(u):
    out = b''
    while True:
        b = u & 0x7F; u >>= 7
        if u: out += bytes([b | 0x80])
        else: return out + bytes([b])
def long(n): return varint(zz(n))
def enc_bytes(b): return long(len(b)) + b

def enc(schema, v, names=None):
    """v is in the replay DSL: null | {tag: payload}"""
    names = names if names is not None else {}
    if isinstance(schema, str):
        if schema in names: return enc(names[schema], v, names)
        t = schema
    elif isinstance(schema, list):
        idx, inner = v['union']
        return long(idx) + enc(schema[idx], inner, names)
    else:
        t = schema['type']
        if t in ('record', 'enum', 'fixed') and 'name' in schema: names[schema['name']] = schema
    if t == 'null': return b''
    if t == 'boolean': return bytes([1 if v['boolean'] else 0])
    if t == 'int': return long(v['int'])
    if t == 'long': return long(v['long'])
    if t == 'float': return struct.pack('<f', v['float'])
    if t == 'double': return struct.pack('<d', v['double'])
    if t == 'bytes': return enc_bytes(bytes.fromhex(v['bytes']))
    if t == 'string': return enc_bytes(v['string'].encode('utf-8'))
    if t == 'fixed': return bytes.fromhex(v['fixed'])
    if t == 'enum': return long(v['enum'][0])
    if t == 'array':
        items = v['array']
        return (long(len(items)) + b''.join(enc(schema['items'], x, names) for x in items) if items else b'') + b'\x00'
    if t == 'map':
        m = v['map']
        return (long(len(m)) + b''.join(enc_bytes(k.encode()) + enc(schema['values'], x, names) for k, x in m.items()) if m else b'') + b'\x00'
    if t == 'record':
        given = dict((k, x) for k, x in v['record'])
        return b''.join(enc(f['type'], given[f['name']], names) for f in schema['fields'])
    raise ValueError(t)

def alt_blocks(schema, v, names=None):
    """other spec-conforming encodings of an array/map value: one item per block; negative counts with byte sizes"""
    t = schema['type'] if isinstance(schema, dict) else None
    out = []
    if t == 'array' and len(v['array']) >= 2:
        items = [enc(schema['items'], x, {}) for x in v['array']]
        out.append(b''.join(long(1) + i for i in items) + b'\x00')
        body = b''.join(items)
        out.append(long(-len(items)) + long(len(body)) + body + b'\x00')
        out.append(long(1) + items[0] + long(-(len(items) - 1)) + long(len(b''.join(items[1:]))) + b''.join(items[1:]) + b'\x00')
    if t == 'map' and len(v['map']) >= 2:
        items = [enc_bytes(k.encode()) + enc(schema['values'], x, {}) for k, x in v['map'].items()]
        out.append(b''.join(long(1) + i for i in items) + b'\x00')
        body = b''.join(items)
        out.append(long(-len(items)) + long(len(body)) + body + b'\x00')
    return out

R = {"type": "record", "name": "test", "fields": [{"name": "a", "type": "long"}, {"name": "b", "type": "string"}]}
LIST = {"type": "record", "name": "LongList", "fields": [{"name": "value", "type": "long"}, {"name": "next", "type": ["null", "LongList"]}]}
E1 = {"type": "enum", "name": "Suit", "symbols": ["SPADES", "HEARTS", "DIAMONDS", "CLUBS"]}
F4 = {"type": "fixed", "name": "F4", "size": 4}
cases = [
    # the specification's own examples
    ("long", {"long": 64}), ("long", {"long": -64}), ("long", {"long": -65}), ("long", {"long": 0}), ("long", {"long": -1}), ("long", {"long": 1}), ("long", {"long": -2}), ("long", {"long": 2}),
    ("string", {"string": "foo"}),
    (R, {"record": [["a", {"long": 27}], ["b", {"string": "foo"}]]}),
    ({"type": "array", "items": "long"}, {"array": [{"long": 3}, {"long": 27}]}),
    (["null", "string"], {"union": [0, None]}), (["null", "string"], {"union": [1, {"string": "a"}]}),
    # boundaries
    ("int", {"int": 2147483647}), ("int", {"int": -2147483648}), ("long", {"long": 9223372036854775807}), ("long", {"long": -9223372036854775808}),
    ("long", {"long": 8191}), ("long", {"long": 8192}), ("long", {"long": -8192}), ("long", {"long": -8193}), ("long", {"long": 1 << 34}), ("long", {"long": -(1 << 55)}),
    ("boolean", {"boolean": True}), ("boolean", {"boolean": False}), ("null", None),
    ("float", {"float": 1.5}), ("float", {"float": -0.0}), ("double", {"double": -2.25}), ("double", {"double": 1e300}),
    ("bytes", {"bytes": ""}), ("bytes", {"bytes": "00ff80"}), ("string", {"string": ""}), ("string", {"string": "héllo \U0001F600"}),
    (F4, {"fixed": "deadbeef"}), ({"type": "fixed", "name": "F0", "size": 0}, {"fixed": ""}),
    (E1, {"enum": [3, "CLUBS"]}), (E1, {"enum": [0, "SPADES"]}),
    ({"type": "array", "items": "long"}, {"array": []}),
    ({"type": "array", "items": "string"}, {"array": [{"string": "a"}, {"string": ""}, {"string": "ccc"}]}),
    ({"type": "array", "items": "null"}, {"array": [None, None, None]}),
    ({"type": "array", "items": {"type": "array", "items": "int"}}, {"array": [{"array": [{"int": 1}]}, {"array": []}, {"array": [{"int": -1}, {"int": 300}]}]}),
    ({"type": "map", "values": "long"}, {"map": {}}), ({"type": "map", "values": "long"}, {"map": {"a": {"long": 1}, "bb": {"long": -300}}}),
    ({"type": "map", "values": ["null", "string"]}, {"map": {"k": {"union": [0, None]}, "l": {"union": [1, {"string": "v"}]}}}),
    (["string", "null", "long"], {"union": [2, {"long": -3}]}), (["string", "null", "long"], {"union": [1, None]}),
    (LIST, {"record": [["value", {"long": 1}], ["next", {"union": [1, {"record": [["value", {"long": 2}], ["next", {"union": [0, None]}]]}]}]]}),
    ({"type": "record", "name": "empty", "fields": []}, {"record": []}),
    ({"type": "record", "name": "outer", "fields": [{"name": "e", "type": E1}, {"name": "f", "type": F4}, {"name": "m", "type": {"type": "map", "values": "int"}}, {"name": "u", "type": ["null", "double"]}]},
     {"record": [["e", {"enum": [1, "HEARTS"]}], ["f", {"fixed": "01020304"}], ["m", {"map": {"x": {"int": 7}}}], ["u", {"union": [1, {"double": 0.5}]}]]}),
]
out = []
for schema, v in cases:
    h = enc(schema, v, {})
    sc = {"kind": "datum_vector", "schema": json.dumps(schema), "value": v, "hex": h.hex()}
    alts = alt_blocks(schema, v) if isinstance(schema, dict) else []
    if alts: sc["alt"] = [a.hex() for a in alts]
    out.append(sc)
# sanity: the specification's printed examples
assert enc("long", {"long": 64}).hex() == "8001" and enc("long", {"long": -64}).hex() == "7f" and enc("long", {"long": -65}).hex() == "8101"
assert enc("string", {"string": "foo"}).hex() == "06666f6f"
assert enc(R, cases[9][1], {}).hex() == "3606666f6f"
assert enc({"type": "array", "items": "long"}, cases[10][1]).hex() == "04063600"
assert enc(["null", "string"], cases[12][1]).hex() == "020261"
pp = os.path.join(os.path.dirname(os.path.abspath(__file__)), '..', 'units', 'probes.json')
pr = json.load(open(pp))
for pid in ('C02', 'C01'):
    pr[pid] = [x for x in pr[pid] if x.get('kind') != 'datum_vector'] + out
json.dump(pr, open(pp, 'w'), indent=0)
print(len(out), 'vectors')
