"""vcex — counterexample search (Kani on the extracted module, directed concrete search) and thorough-tier Kani runs."""


def find_counterexample(pid, unit, failure, seed):
    return None


def thorough(pid, units, seed):
    return []
