"""vcex — counterexample search for a failed obligation.

Verus gives no counterexample.  When an obligation fails, this module (1) rebuilds the replay binary against /repo's
current working tree (hook feature on) and (2) runs the directed concrete search registered for the property/function
in units/probes.json: scenarios derived from the failed clause (short-write sinks, injected errors at each call,
truncation at every offset, boundary varints, limit-sized collections ...).  A scenario that the REAL code fails is a
confirmed counterexample and is written into the replay file; if none fails the VIOLATION line carries
`no-failing-input-found`.  (3) Kani harnesses on the extracted module (tools/vkani.py) are the bit-precise second
back end: thorough tier, and arbiter for leaf units.
"""
import json
import os
import subprocess
import time

HERE = os.path.dirname(os.path.abspath(__file__))
VERIF = os.path.dirname(HERE)
REPLAY_BIN = os.path.join(VERIF, 'target', 'release', 'verif-replay')
_built = {'ok': None}


def build_replay():
    if _built['ok'] is not None:
        return _built['ok']
    env = dict(os.environ, CARGO_NET_OFFLINE='true', CARGO_TARGET_DIR=os.path.join(VERIF, 'target'))
    d = os.path.join(VERIF, 'tools', 'replay')
    try:
        if os.path.exists('/repo/Cargo.lock'):
            open(os.path.join(d, 'Cargo.lock'), 'w').write(open('/repo/Cargo.lock').read())
        p = subprocess.run(['cargo', 'build', '--offline', '--release'], cwd=d, env=env, stdout=subprocess.PIPE, stderr=subprocess.STDOUT, text=True, timeout=900)
        _built['ok'] = (p.returncode == 0)
        _built['log'] = p.stdout[-2000:]
    except Exception as e:  # noqa
        _built['ok'] = False
        _built['log'] = repr(e)
    return _built['ok']


def run_scenario(sc, timeout=120):
    try:
        p = subprocess.run([REPLAY_BIN, '--scenario', json.dumps(sc)], stdout=subprocess.PIPE, stderr=subprocess.PIPE, text=True, timeout=timeout)
        return p.returncode, p.stdout.strip()
    except subprocess.TimeoutExpired:
        return 1, 'REPRODUCED %s :: replay did not finish within %ds (hang)' % (json.dumps(sc), timeout)


def probes_for(pid, fn):
    p = json.load(open(os.path.join(VERIF, 'units', 'probes.json')))
    out = []
    for key in (fn, pid, '*'):
        out += p.get(key, [])
    # a scenario recorded as a known finding is reported as KNOWN-FINDING by vrun, never as a fresh violation
    try:
        kf = json.load(open(os.path.join(VERIF, 'known_findings.json')))
        known = [json.dumps(sc, sort_keys=True) for k in kf.get('known', []) for sc in k.get('replays', [])]
        out = [sc for sc in out if json.dumps(sc, sort_keys=True) not in known]
    except Exception:
        pass
    return out


def find_counterexample(pid, unit, failure, seed):
    t0 = time.time()
    if not build_replay():
        return dict(confirmed_on_real_code=False, note='replay binary could not be built against the current tree: ' + _built.get('log', '')[-500:])
    tried = 0
    for sc in probes_for(pid, failure['fn']):
        tried += 1
        rc, out = run_scenario(sc)
        if rc == 1 and out.startswith('REPRODUCED'):
            return dict(confirmed_on_real_code=True, scenario=sc, replay_output=out[:2000], search='directed concrete search, %d scenario(s) tried, %.1fs' % (tried, time.time() - t0))
    return dict(confirmed_on_real_code=False, note='directed concrete search: %d scenario(s) tried against the real code, none failed' % tried)


# thorough tier only: deeper variants of the generator-based sweeps (minutes, not seconds)
THOROUGH_EXTRA = {
    'C05': [dict(kind='decode_exhaustive', max_len=3, only=[0, 1, 2, 6, 7, 8, 20]), dict(kind='truncation_sweep', seed=11), dict(kind='truncation_sweep', seed=12)],
    'C06': [dict(kind='decode_exhaustive', max_len=3, only=[0, 1, 2, 3, 5, 9, 12, 14, 15, 19, 20]), dict(kind='truncation_sweep', seed=21), dict(kind='truncation_sweep', seed=22), dict(kind='truncation_sweep', seed=23)],
    'C14': [dict(kind='container_matrix'), dict(kind='truncation_sweep', seed=31)],
    'C01': [dict(kind='truncation_sweep', seed=41), dict(kind='decode_exhaustive', max_len=3, only=[2, 16, 14, 15])],
}


PROBE_ERRORS = []


def run_all_probes(pid, seed, tier='quick'):
    """Thorough tier: the whole probe catalogue of the property is replayed against the real code (conformance run of the
    assumed contracts A9/A10/A11 and of the extraction).  Returns (n_run, [reproduced...])."""
    if not build_replay():
        return 0, [dict(scenario=None, output='replay binary could not be built: ' + _built.get('log', '')[-300:], infra=True)]
    n = 0
    bad = []
    scenarios = probes_for(pid, '*') + (THOROUGH_EXTRA.get(pid, []) if tier == 'thorough' else [])
    for sc in scenarios:
        sc = dict(sc)
        if sc.get('kind') == 'truncation_sweep' and 'seed' not in sc:
            sc['seed'] = seed
        n += 1
        rc, out = run_scenario(sc, timeout=1800 if tier == 'thorough' else 300)
        if rc == 1:
            bad.append(dict(scenario=sc, output=out[:1500]))
        elif rc != 0:
            # the scenario itself could not be run (malformed probe, not a verdict about the code): reported, never a violation
            PROBE_ERRORS.append(dict(scenario=sc, output=out[:300]))
    return n, bad


def thorough(pid, units, seed):
    try:
        import vkani
        return vkani.run_for(pid, units, seed)
    except ImportError:
        return []
