#!/usr/bin/env python3
"""vrun — decide one property: extract -> Verus (contracts) -> vacuity twins -> assumption scan ->
(on failure) counterexample search + replay -> evidence + exit code.

exit 0  every obligation of every unit of the property discharged (known findings printed, if any)
exit 1  a contract obligation failed; prints `VIOLATION property=<id> replay=<path>[ no-failing-input-found]`
exit 2  undecided: lost anchor, construct outside the extraction subset, solver limit, proof-maintenance failure
"""
import argparse
import concurrent.futures as cf
import hashlib
import json
import os
import re
import subprocess
import sys
import time

HERE = os.path.dirname(os.path.abspath(__file__))
VERIF = os.path.dirname(HERE)
sys.path.insert(0, HERE)
import vgen  # noqa: E402
import rsx  # noqa: E402

BUILD = os.path.join(VERIF, 'build')
REPLAYS = os.path.join(VERIF, 'replays')
EVID = os.path.join(VERIF, 'evidence')
INDEX = json.load(open(os.path.join(VERIF, 'units', 'index.json')))
VERUS = os.environ.get('VERUS', 'verus')

CONTRACT_KINDS = [
    ('postcondition not satisfied', 'post'),
    ('precondition not satisfied', 'pre-of-callee'),
    ('invariant not satisfied', 'loop-inv'),
    ('loop invariant not satisfied', 'loop-inv'),
    ('possible arithmetic underflow/overflow', 'overflow'),
    ('possible division by zero', 'overflow'),
    ('possible bit shift underflow/overflow', 'overflow'),
    ('index out of bounds', 'bounds'),
    ('recommendation not met', 'recommend'),
    ('assertion failed', 'assert'),
    ('decreases not satisfied', 'decreases'),
    ('unreachable', 'panic-free'),
]
UNDECIDED_MARKERS = ('Resource limit (rlimit) exceeded', 'rlimit', 'loop must have a decreases clause', 'loop must have an invariant')


def sh(cmd, timeout=None, cwd=None, env=None):
    t0 = time.time()
    try:
        p = subprocess.run(cmd, stdout=subprocess.PIPE, stderr=subprocess.PIPE, text=True, timeout=timeout, cwd=cwd, env=env)
        return p.returncode, p.stdout, p.stderr, time.time() - t0
    except subprocess.TimeoutExpired as e:
        return 124, e.stdout or '', (e.stderr or '') + '\nTIMEOUT', time.time() - t0


def parse_verus_stderr(stderr):
    """Split rustc-style diagnostics into blocks: dict(level,msg,file,line,text,lines[])."""
    blocks = []
    cur = None
    for ln in stderr.split('\n'):
        m = re.match(r'^(error(?:\[E\d+\])?|warning|note): (.*)$', ln)
        if m:
            cur = dict(level=m.group(1), msg=m.group(2), text=[ln], line=None, lines=[])
            blocks.append(cur)
            continue
        if cur is None:
            continue
        cur['text'].append(ln)
        m = re.match(r'^\s*--> (.*?):(\d+):(\d+)', ln)
        if m and cur['line'] is None:
            cur['line'] = int(m.group(2))
        m = re.match(r'^\s*(\d+) [|]', ln)
        if m:
            cur['lines'].append(int(m.group(1)))
    for b in blocks:
        b['text'] = '\n'.join(b['text'])
    return blocks


def classify(msg):
    for pat, kind in CONTRACT_KINDS:
        if pat in msg:
            return kind
    return None


def fn_of_line(metas, line):
    for m in metas:
        if m['gen_line_start'] <= line <= m['gen_line_end']:
            return m
    return None


def scan_assumptions(text):
    """Mechanical scan of the generated Verus file for anything that is assumed rather than proved.
    Items preceded by `// @proved-in <unit> <fn>` are contracts imported from the unit that proves them."""
    found = []
    lines = text.split('\n')
    for i, ln in enumerate(lines):
        s = ln.strip()
        if s.startswith('//'):
            continue
        if i > 0 and lines[i - 1].strip().startswith('// @proved-in'):
            pm = lines[i - 1].strip().split()
            found.append('imported-contract %s (proved in unit %s)' % (pm[3], pm[2]))
            continue
        if 'external_body' in s or 'assume_specification' in s or re.search(r'\bassume\s*\(', s) or re.search(r'\badmit\s*\(', s) or 'uninterp spec fn' in s or 'external_type_specification' in s or '#[verifier::external' in s:
            # name: next fn/struct/spec ident
            ctx = ' '.join(x.strip() for x in lines[i:i + 4])
            m = re.search(r'assume_specification\s*(?:<[^>]*>)?\s*\[\s*([^\]]+?)\s*\]', ctx)
            if m:
                found.append('assume_specification ' + re.sub(r'\s+', '', m.group(1)))
                continue
            m = re.search(r'\b(?:fn|struct|enum)\s+(\w+)', ctx)
            kind = 'external_body' if 'external' in s else ('uninterp' if 'uninterp' in s else 'assume')
            found.append('%s %s' % (kind, m.group(1) if m else '?'))
    return sorted(set(found))


def run_verus(path, rlimit=None, extra=None):
    cmd = [VERUS, path, '--output-json', '--time', '--multiple-errors', '6', '--triggers-mode', 'silent']
    if rlimit:
        cmd += ['--rlimit', str(rlimit)]
    if extra:
        cmd += extra
    rc, out, err, wall = sh(cmd, timeout=900, cwd=BUILD)
    js = None
    try:
        js = json.loads(out)
    except Exception:
        pass
    return dict(rc=rc, json=js, stderr=err, wall=wall, cmd=' '.join(cmd))


def make_twin_file(template, unit):
    """Vacuity twins: every contracted function is duplicated under the name <f>__twin with `ensures false`.
    A twin that *verifies* means the function's preconditions/assumptions are contradictory or no exit is reachable."""
    segs = vgen.parse_template(template)
    out = []
    twins = []
    for kind, seg in segs:
        if kind == 'text':
            out.append(seg)
            continue
        fn = seg
        ex = vgen.extract_source(fn)
        meta = ex['meta']
        body = vgen.apply_rewrites(fn, ex['body'], meta)
        body, table = vgen.splice(fn, body)
        body = vgen.apply_truncate(fn, body, meta)
        body = vgen.unsplice(body, table)
        sig = '\n'.join(fn['sig'])
        out.append(sig + '\n{\n' + '\n'.join(fn['pre']) + '\n' + body + '\n' + '\n'.join(fn['post']) + '\n}\n')
        if fn['opts'].get('twin', 'yes') == 'no':
            continue
        # twin: rename + replace ensures
        m = re.search(r'\bfn\s+(\w+)', sig)
        name = m.group(1)
        tsig = sig[:m.start(1)] + name + '__twin' + sig[m.end(1):]
        e = re.search(r'\bensures\b', tsig)
        tsig = (tsig[:e.start()] if e else tsig.rstrip()) + '\n    ensures false,\n'
        start = sum(x.count('\n') + 1 for x in out) + 2
        ttext = tsig + '{\n' + '\n'.join(fn['pre']) + '\n' + body + '\n' + '\n'.join(fn['post']) + '\n}\n'
        out.append(ttext)
        twins.append(dict(id=fn['id'], name=name + '__twin', gen_line_start=start, gen_line_end=start + ttext.count('\n')))
    path = os.path.join(BUILD, unit + '_twin.rs')
    open(path, 'w').write('#![feature(allocator_api)]\n' + '\n'.join(out))
    return path, twins


def verify_unit(unit, tier):
    """Returns a result dict for the unit."""
    info = INDEX['units'][unit]
    template = os.path.join(VERIF, 'units', info['file'])
    res = dict(unit=unit, status='ok', failures=[], undecided=[], functions=[], assumptions=[], twins=dict(expected=0, failed=0), wall=0.0,
               verus_verified=0, verus_errors=0, smt_ms=0, checker_cmd='')
    t0 = time.time()
    gen = os.path.join(BUILD, unit + '.rs')
    try:
        metas = vgen.generate(template, gen, os.path.join(BUILD, unit + '_raw.rs'), os.path.join(BUILD, unit + '_meta.json'))
    except rsx.LostAnchor as e:
        res['status'] = 'undecided'
        res['undecided'].append('lost anchor: %s' % e)
        res['wall'] = time.time() - t0
        return res
    except Exception as e:  # extractor bug or construct it cannot handle
        res['status'] = 'undecided'
        res['undecided'].append('extractor failure: %r' % e)
        res['wall'] = time.time() - t0
        return res
    text = open(gen).read()
    res['assumptions'] = scan_assumptions(text)
    allowed = set()
    for pf in sorted(os.listdir(os.path.join(VERIF, 'units'))):
        if pf.startswith('prelude_') and pf.endswith('.rs'):
            allowed |= set(scan_assumptions(open(os.path.join(VERIF, 'units', pf)).read()))
    declared = {}
    for m in re.finditer(r'^\s*//@assume\s+(\S+\s+\S+)\s*(?:[-—:]+\s*(.*))?$', open(template).read(), re.M):
        declared[m.group(1)] = m.group(2) or ''
    allowed |= set(declared)
    res['declared_assumptions'] = declared
    res['imports'] = sorted(set(a.split('proved in unit ')[1].rstrip(')') for a in res['assumptions'] if a.startswith('imported-contract')))
    extra = [a for a in res['assumptions'] if a not in allowed and not a.startswith('imported-contract')]
    if extra:
        res['status'] = 'undecided'
        res['undecided'].append('assumption(s) not on the A-list: %s' % extra)
    v = run_verus(gen)
    res['checker_cmd'] = v['cmd']
    if v['json'] is None:
        res['status'] = 'undecided'
        res['undecided'].append('verus produced no JSON (rc=%s): %s' % (v['rc'], v['stderr'][-2000:]))
        res['wall'] = time.time() - t0
        return res
    vr = v['json']['verification-results']
    res['verus_verified'] = vr.get('verified', 0)
    res['verus_errors'] = vr.get('errors', 0)
    smt = v['json'].get('times-ms', {}).get('smt', {})
    res['smt_ms'] = smt.get('smt-run', 0)
    breakdown = {}
    for mt in smt.get('smt-run-module-times', []):
        for fb in mt.get('function-breakdown', []):
            breakdown[fb['function'].split('::', 1)[-1]] = fb
    blocks = parse_verus_stderr(v['stderr'])
    compile_errors = [b for b in blocks if b['level'].startswith('error[') or (b['level'] == 'error' and classify(b['msg']) is None and 'aborting due to' not in b['msg'])]
    if vr.get('encountered-error') or vr.get('encountered-vir-error'):
        hard = [b for b in compile_errors if not any(u in b['text'] for u in UNDECIDED_MARKERS)]
        res['status'] = 'undecided'
        for b in (hard or compile_errors)[:5]:
            m = fn_of_line(metas, b['line']) if b['line'] else None
            res['undecided'].append('verus rejected the extraction%s: %s' % (' in ' + m['id'] if m else '', b['text'][:1500]))
    for b in blocks:
        if b['level'] != 'error':
            continue
        kind = classify(b['msg'])
        if any(u in b['text'] for u in UNDECIDED_MARKERS):
            m = fn_of_line(metas, b['line']) if b['line'] else None
            res['undecided'].append('%s: %s' % (m['id'] if m else '?', b['msg']))
            if res['status'] == 'ok':
                res['status'] = 'undecided'
            continue
        if kind is None:
            continue
        m = None
        for ln in [b['line']] + b['lines']:
            if ln:
                m = fn_of_line(metas, ln)
                if m:
                    break
        if m is None:
            # failure in a lemma / spec helper outside extracted functions: proof maintenance, not a verdict
            res['undecided'].append('auxiliary proof failed: %s' % b['text'][:1200])
            if res['status'] == 'ok':
                res['status'] = 'undecided'
            continue
        res['failures'].append(dict(fn=m['id'], src=m['src'], src_line=m['line'], kind=kind, msg=b['msg'], text=b['text']))
    if res['failures']:
        res['status'] = 'failed'
    for m in metas:
        short = m['id'].split('::')[-1]
        fb = None
        for k, vv in breakdown.items():
            if k.split('::')[-1] == re.sub(r'\W', '_', m.get('gen_name', short)) or k.endswith('::' + short) or k == short:
                fb = vv
        failed = any(f['fn'] == m['id'] for f in res['failures'])
        res['functions'].append(dict(id=m['id'], src=m['src'], lines='%d-%d' % (m['line'], m['end_line']), sha256=m['sha256'], kind=m['kind'],
                                     rewrites=m['rewrites'], n_requires=m['n_requires'], n_ensures=m['n_ensures'], n_loop_specs=m['n_loops'],
                                     backend='verus/z3', smt_ms=(fb or {}).get('time'), rlimit=(fb or {}).get('rlimit'),
                                     verified=(not failed) and res['status'] != 'undecided'))
    # vacuity twins (only meaningful when the unit verified)
    if res['status'] == 'ok':
        try:
            tpath, twins = make_twin_file(template, unit)
            tv = run_verus(tpath)
            tblocks = parse_verus_stderr(tv['stderr'])
            if tv['json'] is None or 'verified' not in tv['json']['verification-results'] or tv['json']['verification-results'].get('encountered-vir-error') or any(b['level'].startswith('error[') for b in tblocks):
                raise RuntimeError('twin file rejected by verus: ' + tv['stderr'][-800:])
            def twin_hits(blocks, pred):
                hit = set()
                for b in blocks:
                    if b['level'] == 'error' and pred(b['msg']):
                        for ln in [b['line']] + b['lines']:
                            if ln:
                                for t in twins:
                                    if t['gen_line_start'] <= ln <= t['gen_line_end']:
                                        hit.add(t['id'])
                return hit
            is_rlimit = lambda m: 'Resource limit (rlimit) exceeded' in m
            failed_twins = twin_hits(tblocks, classify)
            out_of_budget = twin_hits(tblocks, is_rlimit) - failed_twins
            if out_of_budget:
                # the solver ran out of budget before refuting `false` (context-dependent; seen under bit-vector specs): once more
                # with a larger budget. A twin that still is not PROVED is not vacuous — `false` was not derived — and is recorded.
                tv2 = run_verus(tpath, rlimit=200)
                tb2 = parse_verus_stderr(tv2['stderr'])
                failed_twins |= twin_hits(tb2, classify)
                still = (twin_hits(tb2, is_rlimit) | (out_of_budget if tv2['json'] is None else set())) - failed_twins
                failed_twins |= still
                res['twins_inconclusive'] = sorted(still)
            res['twins'] = dict(expected=len(twins), failed=len(failed_twins))
            vac = [t['id'] for t in twins if t['id'] not in failed_twins]
            if vac:
                res['status'] = 'undecided'
                res['undecided'].append('vacuity guard: `ensures false` twin verified for %s (contradictory precondition/assumption or no reachable exit)' % vac)
        except Exception as e:
            res['status'] = 'undecided'
            res['undecided'].append('vacuity twin generation failed: %r' % e)
    res['wall'] = time.time() - t0
    res['stderr_tail'] = v['stderr'][-3000:] if res['status'] != 'ok' else ''
    return res


def syntactic_obligations(pinfo):
    """Frame obligations generated from the source text (DESIGN.md U15): every syntactic use of a watched name must have
    one of the allowed shapes.  Returns (count, failures)."""
    import glob
    fails = []
    n = 0
    for ob in pinfo.get('syntactic', []):
        if ob.get('kind') == 'table':
            # acceptance-table obligation: every arm of the named function that matches `find` yields a tuple of its capture
            # groups, which must be listed in `allowed` (e.g. validate's unconditional `(&Value::K(..), &Schema::S) => None`
            # arms: K under S must be a pair the encoder arms under contract write as a datum of S)
            path = os.path.join(vgen.REPO, ob['file'])
            try:
                f = rsx.find_fn(open(path).read(), ob['fn'])
                flat = re.sub(r'\s+', ' ', rsx.strip_comments(f['body']))
            except Exception as e:
                fails.append(dict(fn='syntactic:' + ob['id'], src=ob['file'], src_line=0, kind='frame', msg='syntactic obligation %s: function %s not found' % (ob['id'], ob['fn']), text=str(e)))
                continue
            allowed = set(tuple(x) for x in ob['allowed'])
            for m in re.finditer(ob['find'], flat):
                n += 1
                if tuple(m.groups()) not in allowed:
                    fails.append(dict(fn='syntactic:' + ob['id'], src=ob['file'], src_line=f['line'], kind='frame',
                                      msg='syntactic obligation %s failed' % ob['id'],
                                      text='%s %s: the arm `%s` accepts the pair %s, which is not in the table of pairs the encoder writes correctly' % (ob['file'], ob['fn'], m.group(0), list(m.groups()))))
            continue
        for path in sorted(glob.glob(os.path.join(vgen.REPO, ob['files']), recursive=True)):
            text = open(path).read()
            cut = text.find('#[cfg(test)]')
            if cut >= 0 and ob.get('skip_tests', True):
                text = text[:cut]
            text = rsx.strip_comments(text)
            flat = re.sub(r'\s+', ' ', text)
            for m in re.finditer(ob['find'], flat):
                n += 1
                ctx = flat[max(0, m.start() - 80):m.end() + 120]
                if not re.search(ob['must'], flat[m.start():m.end() + 160]):
                    fails.append(dict(fn='syntactic:' + ob['id'], src=os.path.relpath(path, vgen.REPO), src_line=text.count('\n', 0, 0), kind='frame',
                                      msg='syntactic frame obligation %s failed' % ob['id'], text='%s: use `%s` does not match the allowed shape /%s/: ...%s...' % (os.path.relpath(path, vgen.REPO), m.group(0), ob['must'], ctx)))
    return n, fails


def load_known():
    p = os.path.join(VERIF, 'known_findings.json')
    if os.path.exists(p):
        return json.load(open(p))
    return dict(known=[], fixed=[])


def match_known(known, pid, f):
    for k in known.get('known', []):
        if k.get('property') not in (pid, '*') and pid not in k.get('properties', []):
            continue
        if 'fn' not in k or k['fn'] != f['fn'] or k.get('kind') != f['kind']:
            continue
        if 'text_contains' in k and not all(s in re.sub(r'\s+', ' ', f['text']) for s in k['text_contains']):
            continue
        return k
    return None


def main():
    ap = argparse.ArgumentParser()
    ap.add_argument('pid')
    ap.add_argument('--tier', default=os.environ.get('VERIF_TIER', 'quick'))
    ap.add_argument('--replay')
    a = ap.parse_args()
    pid = a.pid
    tier = a.tier if a.tier in ('quick', 'thorough') else 'quick'
    seed = int(os.environ.get('VERIF_SEED', '0') or 0)
    os.makedirs(BUILD, exist_ok=True)
    os.makedirs(REPLAYS, exist_ok=True)
    os.makedirs(EVID, exist_ok=True)
    if a.replay:
        import vreplay
        sys.exit(vreplay.replay_file(a.replay))
    t0 = time.time()
    pinfo = INDEX['properties'].get(pid)
    if not pinfo:
        print('property %s is not claimed (see MANIFEST.not_applicable)' % pid)
        sys.exit(2)
    units = list(pinfo['units'])
    # close the unit list under contract imports (a caller's proof is only as good as the callee's proof)
    changed = True
    while changed:
        changed = False
        for u in list(units):
            t = open(os.path.join(VERIF, 'units', INDEX['units'][u]['file'])).read()
            for m in re.finditer(r'//@import\s+(\S+)', t):
                dep = m.group(1).rsplit('.', 1)[0]
                if dep not in units:
                    units.append(dep)
                    changed = True
    with cf.ThreadPoolExecutor(max_workers=min(8, len(units))) as ex:
        results = list(ex.map(lambda u: verify_unit(u, tier), units))
    known = load_known()
    violations = []
    known_hits = []
    undecided = []
    for r in results:
        undecided += ['%s: %s' % (r['unit'], u) for u in r['undecided']]
        for f in r['failures']:
            fnprops = INDEX['units'][r['unit']].get('fn_props', {}).get(f['fn'])
            if fnprops and pid not in fnprops:
                continue
            if f['kind'] in ('assert', 'recommend', 'decreases'):
                undecided.append('%s: %s in %s (proof maintenance, not a verdict)' % (r['unit'], f['msg'], f['fn']))
                continue
            k = match_known(known, pid, f)
            if k:
                known_hits.append((k, f))
            else:
                violations.append((r['unit'], f))
    syn_n, syn_fails = syntactic_obligations(pinfo)
    for f in syn_fails:
        violations.append(('syntactic', f))
    # thorough tier / failure follow-up hooks (Kani, replay) live in vcex.py
    cex = {}
    kani_res = []
    import vcex
    if violations:
        for unit, f in violations:
            cex[(unit, f['fn'], f['kind'])] = vcex.find_counterexample(pid, unit, f, seed)
    probes_run = 0
    if not violations:
        # both tiers: the property's whole probe catalogue is replayed against the real crate (a BOUNDED conformance run of
        # the assumed contracts A9-A11 and of the extraction; it takes about a second once the replay binary is built).
        # Never counted as proved; a reproduced scenario is a violation confirmed on the real code by construction.
        probes_run, bad = vcex.run_all_probes(pid, seed, tier)
        for pe in vcex.PROBE_ERRORS:
            print('  note: probe %s could not be run and decides nothing: %s' % (pe['scenario'].get('kind'), pe['output'][:160]))
        for b in bad:
            if b.get('infra'):
                undecided.append(b['output'])
                continue
            f = dict(fn='probe:' + b['scenario'].get('kind', '?'), src='(real crate, replay binary)', src_line=0, kind='conformance', msg='a probe scenario fails on the real code', text=b['output'])
            violations.append(('probes', f))
            cex[('probes', f['fn'], f['kind'])] = dict(confirmed_on_real_code=True, scenario=b['scenario'], replay_output=b['output'])
        kani_res = vcex.thorough(pid, units, seed) if tier == 'thorough' else []
        for kr in kani_res:
            if kr.get('status') == 'refuted':
                f = dict(fn=kr['fn'], src=kr.get('src', ''), src_line=0, kind='kani:' + kr['harness'], msg='Kani harness refuted', text=kr.get('output', '')[-4000:])
                violations.append((kr['unit'], f))
                cex[(kr['unit'], f['fn'], f['kind'])] = kr.get('cex')
            elif kr.get('status') == 'undecided':
                undecided.append('kani %s: %s' % (kr['harness'], kr.get('why', '')))
    # ---- known findings recorded by input/call site: replayed against the real code on every run
    known_replayed = []
    for k in known.get('known', []):
        if k.get('property') != pid or not k.get('replays'):
            continue
        if not vcex.build_replay():
            undecided.append('known finding %s could not be replayed (replay binary build failed)' % k['id'])
            continue
        still = False
        for sc in k['replays']:
            rc, out = vcex.run_scenario(sc)
            if rc == 1:
                still = True
        known_replayed.append(dict(id=k['id'], still_reproduces=still, call_site=k.get('call_site')))
        if still:
            print('KNOWN-FINDING: property=%s %s [%s]' % (pid, k['what'], k.get('call_site', '')))
        else:
            print('note: known finding %s no longer reproduces on this tree' % k['id'])
    # ---- evidence
    fns = [f for r in results for f in r['functions']]
    obligations = sum(r['verus_verified'] + r['verus_errors'] for r in results) + syn_n
    discharged = sum(r['verus_verified'] for r in results) + syn_n - len(syn_fails)
    kani_complete = [k for k in kani_res if k.get('complete')]
    obligations += sum(k.get('checks', 0) for k in kani_complete)
    discharged += sum(k.get('checks', 0) for k in kani_complete if k.get('status') == 'proved')
    samples = []
    for r in results:
        for f in r['functions'][:4]:
            samples.append(dict(obligation='%s/%s/post+pre-of-callees+overflow+bounds' % (r['unit'], f['id']), source='%s:%s' % (f['src'], f['lines']),
                                status='discharged' if f['verified'] else 'not discharged', backend=f['backend'], smt_ms=f['smt_ms']))
    assumptions = sorted(set(a for r in results for a in r['assumptions']))
    ev = dict(
        property_id=pid, tier=tier, seed=seed, level='proof',
        coverage=dict(
            obligations=obligations, discharged=discharged,
            checker_cmd='; '.join(sorted(set(r['checker_cmd'] for r in results if r['checker_cmd']))),
            trusted_base=pinfo.get('trusted_base', []) + ['Verus 0.2026.09.13 + Z3', 'extractor tools/rsx.py+vgen.py (R-rules logged per function)'],
            samples=samples,
            obligation_unit='one per Verus verification condition group (function, loop, lemma, spec termination) as counted by Verus "verified/errors"; Kani: one per CBMC check of a complete harness',
            functions_under_contract=fns,
            units=[dict(unit=r['unit'], status=r['status'], verus_verified=r['verus_verified'], verus_errors=r['verus_errors'], smt_ms=r['smt_ms'],
                        wall_s=round(r['wall'], 2), vacuity_twins=dict(r['twins'], inconclusive=r.get('twins_inconclusive', []))) for r in results],
            kani=[{k: v for k, v in kr.items() if k not in ('output',)} for kr in kani_res],
            bounded=[dict(harness=k['harness'], bound=k.get('bound')) for k in kani_res if not k.get('complete')]
                    + ([dict(harness='probe catalogue units/probes.json replayed against the real crate (conformance of assumed contracts; not a proof)', bound='%d concrete scenarios (generator-based sweeps count as one)' % probes_run)] if probes_run else []),
            undecided=undecided,
            known_findings=[dict(id=k['id'], fn=f['fn'], kind=f['kind']) for k, f in known_hits] + known_replayed,
            not_decided=pinfo.get('not_decided', []),
            probes_replayed_on_real_code=probes_run,
        ),
        assumptions=assumptions + pinfo.get('assumptions', []),
        wall_s=round(time.time() - t0, 2),
        violations=len(violations),
    )
    json.dump(ev, open(os.path.join(EVID, pid + '.json'), 'w'), indent=1)
    # ---- verdict
    for k, f in known_hits:
        print('KNOWN-FINDING: property=%s %s (%s in %s)' % (pid, k['what'], f['kind'], f['fn']))
    if violations:
        for unit, f in violations:
            c = cex.get((unit, f['fn'], f['kind']))
            h = hashlib.sha256((f['fn'] + f['kind'] + f['text']).encode()).hexdigest()[:10]
            path = os.path.join(REPLAYS, '%s-%s-%s.json' % (pid, re.sub(r'\W+', '_', f['fn']), h))
            json.dump(dict(property=pid, unit=unit, obligation='%s/%s/%s' % (unit, f['fn'], f['kind']), function=f['fn'], source='%s:%s' % (f['src'], f['src_line']),
                           backend='verus/z3' if not f['kind'].startswith('kani:') else 'kani/cbmc', verifier_output=f['text'],
                           counterexample=c), open(path, 'w'), indent=1)
            confirmed = bool(c and c.get('confirmed_on_real_code'))
            print('VIOLATION property=%s replay=%s%s' % (pid, path, '' if confirmed else ' no-failing-input-found'))
            print('  obligation %s/%s/%s failed: %s' % (unit, f['fn'], f['kind'], f['msg']))
        if undecided:
            print('  note: the contracts were UNDECIDED on this tree (%s); the deciding step above is the replay of concrete inputs against the real crate' % undecided[0][:200])
        sys.exit(1)
    if undecided:
        # the contracts could not be decided on this tree (e.g. the extraction met code outside its model).  The directed
        # concrete search is still run against the real code: a reproduced failure is reported as a violation with its
        # replay (deciding step = replay of a concrete input, labelled as such); otherwise the run stays undecided.
        c = vcex.find_counterexample(pid, units[0], dict(fn='*undecided*'), seed)
        if c and c.get('confirmed_on_real_code'):
            h = hashlib.sha256(json.dumps(c['scenario'], sort_keys=True).encode()).hexdigest()[:10]
            path = os.path.join(REPLAYS, '%s-undecided-%s.json' % (pid, h))
            json.dump(dict(property=pid, unit=None, obligation='(contracts undecided on this tree: %s) — violation found by the directed concrete search' % '; '.join(u[:200] for u in undecided[:3]),
                           function=None, backend='replay of concrete input against the real crate', verifier_output='\n'.join(undecided)[:6000], counterexample=c), open(path, 'w'), indent=1)
            print('VIOLATION property=%s replay=%s' % (pid, path))
            print('  contracts undecided (%s); the directed concrete search reproduced a failure on the real code: %s' % (undecided[0][:160], c.get('replay_output', '')[:300]))
            ev['violations'] = 1
            json.dump(ev, open(os.path.join(EVID, pid + '.json'), 'w'), indent=1)
            sys.exit(1)
        print('UNDECIDED property=%s' % pid)
        for u in undecided:
            print('  ' + u[:3000])
        sys.exit(2)
    print('OK property=%s units=%s obligations=%d discharged=%d wall=%.1fs' % (pid, ','.join(units), obligations, discharged, time.time() - t0))
    sys.exit(0)


if __name__ == '__main__':
    main()
