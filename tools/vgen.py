#!/usr/bin/env python3
"""vgen — build a Verus input file (and a verbatim Rust module for Kani / native runs) from a unit
template plus the *current* text of /repo.

Template directives (each starts a line with `//@`):

  //@include <file>                    splice another template/prelude file (relative to /verif/units)
  //@fn <id> src=<path under repo> item=<fn path> [arm=<scrutinee regex>=><pattern regex>] [closure=<anchor snippet>]
      <verus signature + requires/ensures text (no braces)>
  //@pre                               statements placed first in the body (ghost lets, broadcast use)
  //@loop <k>                          loop spec clauses for the k-th loop of the body (source order)
  //@hint before|after "<snippet>" [#n]  proof text anchored on a snippet of the body (whitespace-insensitive)
  //@rewrite "<from>" => "<to>" [?]    per-function textual rewrite (logged); without `?` a missing match is a lost anchor
  //@params a, b, c                    expected source parameter names (default: names in the verus signature)
  //@endfn

Everything between `//@fn` and the first other directive is the signature/contract.
The body text is taken from the repository on every run; only logged rewrites are applied.
"""
import hashlib
import json
import os
import re
import sys

sys.path.insert(0, os.path.dirname(os.path.abspath(__file__)))
import rsx  # noqa: E402
from rsx import LostAnchor  # noqa: E402

REPO = os.environ.get('VERIF_REPO', '/repo')
VERIF = os.path.dirname(os.path.dirname(os.path.abspath(__file__)))

LOG_MACROS = ('error', 'warn', 'debug', 'info', 'trace')

# ---------------------------------------------------------------------------------------------
# global rewrites (R-rules of DESIGN.md §3); each returns (new_text, count)


def r2_map_err_ctor(text):
    """R2: `.map_err(Details::X)` -> `.map_err(|e| Details::X(e))` (Verus rejects ctor as fn value)."""
    rx = re.compile(r'\.\s*map_err\s*\(\s*((?:\w+\s*::\s*)*[A-Z]\w*)\s*\)')
    def rep(m):
        ctor = re.sub(r'\s+', '', m.group(1))
        ty = ctor.split('::')[-2] if '::' in ctor else 'Details'
        return '.map_err(|e| -> (r: %s) ensures r == %s(e) { %s(e) })' % (ty, ctor, ctor)
    return rx.subn(rep, text)


def r2b_map_ctor(text):
    """R2: `.map(Value::X)` -> `.map(|v| Value::X(v))`."""
    rx = re.compile(r'\.\s*map\s*\(\s*((?:\w+\s*::\s*)+[A-Z]\w*)\s*\)')
    def rep(m):
        ctor = re.sub(r'\s+', '', m.group(1))
        ty = ctor.split('::')[-2]
        return '.map(|v| -> (r: %s) ensures r == %s(v) { %s(v) })' % (ty, ctor, ctor)
    return rx.subn(rep, text)


def r2c_closure_into(text):
    """R2: `|e| Details::X(args).into()` -> closure with an explicit postcondition (Verus closures carry no inferred spec)."""
    rx = re.compile(r'\|\s*(\w+)\s*\|\s*(Details\s*::\s*\w+\s*(\((?:[^()]|\([^()]*\))*\))?)\s*\.\s*into\s*\(\s*\)')
    def rep(m):
        v, e = m.group(1), re.sub(r'\s+', ' ', m.group(2))
        return '|%s| -> (r: Error) ensures *r.details == %s { %s.into() }' % (v, e, e)
    return rx.subn(rep, text)


def r11_drop_logging(text):
    """R11: delete `error!(..);` / `warn!(..);` / `debug!(..);` statements."""
    toks = rsx.sig_tokens(text)
    cuts = []
    for i, (k, t, s, e) in enumerate(toks):
        if k == 'id' and t in LOG_MACROS and i + 2 < len(toks) and toks[i + 1][1] == '!' and toks[i + 2][1] == '(':
            if i > 0 and toks[i - 1][1] in ('.', '::'):
                continue
            c = rsx.match_close(toks, i + 2)
            end = toks[c][3]
            if c + 1 < len(toks) and toks[c + 1][1] == ';':
                end = toks[c + 1][3]
            cuts.append((s, end))
    out = text
    for s, e in reversed(cuts):
        out = out[:s] + out[e:]
    return out, len(cuts)


def _left_operand_start(toks, i):
    """toks[i] is `as`; return index of first token of its left operand (unary-level expression)."""
    j = i - 1
    # postfix chain
    while True:
        t = toks[j]
        if t[0] == 'punct' and t[1] in ')]':
            # find opener
            depth = 0
            k = j
            while k >= 0:
                if toks[k][0] == 'punct' and toks[k][1] in ')]}':
                    depth += 1
                elif toks[k][0] == 'punct' and toks[k][1] in '([{':
                    depth -= 1
                    if depth == 0:
                        break
                k -= 1
            j = k
            # call/index: callee precedes
            if j - 1 >= 0 and (toks[j - 1][0] in ('id', 'num') or (toks[j - 1][0] == 'punct' and toks[j - 1][1] in ')]?')):
                if toks[j - 1][0] == 'id' and toks[j - 1][1] in ('as', 'return', 'in', 'if', 'match', 'while', 'else', 'let', 'mut'):
                    break
                j -= 1
                continue
            break
        if t[0] in ('id', 'num', 'str', 'chr'):
            # path or field/method: a.b, a::b
            if j - 1 >= 0 and toks[j - 1][0] == 'punct' and toks[j - 1][1] == '.':
                j -= 2
                continue
            if j - 2 >= 0 and toks[j - 1][1] == ':' and toks[j - 2][1] == ':':
                j -= 3
                continue
            break
        if t[0] == 'punct' and t[1] == '?':
            j -= 1
            continue
        break
    # unary prefixes
    while j - 1 >= 0 and toks[j - 1][0] == 'punct' and toks[j - 1][1] in '!-*&':
        # binary minus / deref-mul ambiguity: treat as unary only if the token before is an operator/opener/keyword
        if j - 2 < 0:
            j -= 1
            continue
        p = toks[j - 2]
        if p[0] == 'punct' and p[1] in '([{,;=+-*/%^|&<>!:':
            j -= 1
            continue
        if p[0] == 'id' and p[1] in ('return', 'in', 'if', 'match', 'while', 'else', 'let', 'as'):
            j -= 1
            continue
        break
    return j


INT_TYPES = ('u8', 'u16', 'u32', 'u64', 'u128', 'usize', 'i8', 'i16', 'i32', 'i64', 'i128', 'isize')


def r10_truncate_casts(text):
    """R10: wrap every `<e> as <int type>` in `#[verifier::truncate] (<e> as T)` so Verus gives the cast Rust's
    wrapping semantics instead of leaving out-of-range results unspecified.  Chains `a as u64 as i64` nest."""
    count = 0
    while True:
        toks = rsx.sig_tokens(text)
        done = True
        for i, (k, t, s, e) in enumerate(toks):
            if k == 'id' and t == 'as' and i + 1 < len(toks) and toks[i + 1][1] in INT_TYPES:
                # already wrapped?  look for marker directly before operand: `#[verifier::truncate] (`
                st = _left_operand_start(toks, i)
                pre = text[max(0, toks[st][2] - 26):toks[st][2]]
                if re.search(r'#\[verifier::truncate\]\s*\($', pre) and toks[i + 2][1] == ')' if i + 2 < len(toks) else False:
                    continue
                # float -> int casts are not touched here (Verus has no float arithmetic); detect literal floats only
                a, b = toks[st][2], toks[i + 1][3]
                text = text[:a] + '#[verifier::truncate] (' + text[a:b] + ')' + text[b:]
                count += 1
                done = False
                break
        if done:
            return text, count


def r13_alloc_sites(text):
    """R13: data-sized allocations become calls with the precondition `n <= limit()` (C05 obligation):
    `vec![0u8; E]` -> `vec_zeroed(E)`."""
    toks = rsx.sig_tokens(text)
    edits = []
    for i, (k, t, s, e) in enumerate(toks):
        if k == 'id' and t == 'vec' and i + 2 < len(toks) and toks[i + 1][1] == '!' and toks[i + 2][1] == '[':
            c = rsx.match_close(toks, i + 2)
            inner = text[toks[i + 2][3]:toks[c][2]]
            m = re.match(r'\s*0(?:u8)?\s*;(.*)$', inner, re.S)
            if m:
                edits.append((s, toks[c][3], 'vec_zeroed(%s)' % m.group(1).strip()))
    for s, e, rep in reversed(edits):
        text = text[:s] + rep + text[e:]
    return text, len(edits)


def r14_name_loop_var(text):
    """R14: `for _ in <range>` -> `for loop_i in <range>` (an invariant needs a name for the counter)."""
    return re.subn(r'\bfor\s+_\s+in\b', 'for loop_i in', text)


def r4_value_payload_errors(text):
    """R4: error variants that carry the offending `Value` (`Details::GetInt(other)`, ...) are projected to `Details::Other`."""
    return re.subn(r'Details\s*::\s*Get[A-Z]\w*\s*\(\s*(?:other|self)\s*\)', 'Details::Other', text)


def r15_enumerate(text):
    """R15: `for (i, x) in E.iter().enumerate() {` -> `for i in 0..E.len() { let x = &E[i];` (Verus has no spec for the
    Enumerate adapter; for a Vec/slice E the two loops visit the same (index, element) pairs in the same order)."""
    rx = re.compile(r'for\s*\(\s*(\w+)\s*,\s*(\w+)\s*\)\s*in\s+([\w\.]+?)\s*\.\s*iter\s*\(\s*\)\s*\.\s*enumerate\s*\(\s*\)\s*\{')
    return rx.subn(lambda m: 'for %s in 0..%s.len() { let %s = &%s[%s];' % (m.group(1), m.group(3), m.group(2), m.group(3), m.group(1)), text)


GLOBAL_REWRITES = [
    ('R15 for (i, x) in E.iter().enumerate() -> indexed loop', r15_enumerate),
    ('R14 for _ in -> for loop_i in', r14_name_loop_var),
    ('R2 map_err(Ctor)->closure', r2_map_err_ctor),
    ('R2 map(Ctor)->closure', r2b_map_ctor),
    ('R2 closure |e| Details::X(..).into() gets explicit ensures', r2c_closure_into),
    ('R11 drop logging macros', r11_drop_logging),
    ('R13 vec![0u8; n] -> vec_zeroed(n) requiring n <= limit()', r13_alloc_sites),
]

# ---------------------------------------------------------------------------------------------


EXT_TYPES = [r'serde_json\s*::\s*\w+', r'snap\s*::\s*\w+', r'uuid\s*::\s*Error', r'bzip2\s*::\s*\w+', r'liblzma\s*::\s*[\w:]+', r'zstd\s*::\s*\w+',
             r'miniz_oxide\s*::\s*[\w:]+', r'std\s*::\s*array\s*::\s*TryFromSliceError', r'std\s*::\s*char\s*::\s*\w+', r'std\s*::\s*fmt\s*::\s*Error',
             r'bigdecimal\s*::\s*\w+', r'num_bigint\s*::\s*\w+', r'regex_lite\s*::\s*\w+']
SYNTHETIC_VARIANTS = ['Other', 'Compress', 'Decompress', 'HeaderBuild']


def gen_details(mode='verus', only=None):
    """R4: project `error::Details` mechanically from /repo/avro/src/error.rs: every variant is kept with its payload shape;
    payload types are mapped (std::io::Error -> IoError model, third-party error types -> ExtErr opaque). `#[error(..)]`
    display attributes and derives are dropped. Synthetic variants used by logged rewrites are appended."""
    src = open(os.path.join(REPO, 'avro/src/error.rs')).read()
    m = re.search(r'pub\s+enum\s+Details\b', src)
    if not m:
        raise LostAnchor('enum Details not found in avro/src/error.rs')
    toks = rsx.sig_tokens(src[m.start():])
    j = next(k for k, t in enumerate(toks) if t[1] == '{')
    c = rsx.match_close(toks, j)
    out = []
    k = j + 1
    names = []
    while k < c:
        t = toks[k]
        if t[1] == '#' and toks[k + 1][1] == '[':
            k = rsx.match_close(toks, k + 1) + 1
            continue
        if t[0] == 'id':
            name = t[1]
            names.append(name)
            k += 1
            payload = ''
            if k < c and toks[k][1] in '({':
                e = rsx.match_close(toks, k)
                # drop attributes inside payload
                parts = []
                q = k
                while q <= e:
                    if toks[q][1] == '#' and toks[q + 1][1] == '[':
                        q = rsx.match_close(toks, q + 1) + 1
                        continue
                    parts.append(toks[q])
                    q += 1
                txt = ''
                for a, b in zip(parts, parts[1:] + [None]):
                    txt += a[1]
                    if b is not None and b[2] != a[3]:
                        txt += ' '
                payload = txt
                k = e + 1
            if mode == 'verus':
                payload = re.sub(r'std\s*::\s*io\s*::\s*Error', 'IoError', payload)
            else:
                for t in (r'Box\s*<\s*Error\s*>', r'\bValueKind\b', r'\bSchemaKind\b', r'\bValue\b', r'\bRecordSchema\b', r'\bUnionSchema\b', r'\bSchema\b', r'\bName\b'):
                    payload = re.sub(t, 'ExtErr', payload)
            for ext in EXT_TYPES:
                payload = re.sub(ext, 'ExtErr', payload)
            if only is None or name in only:
                out.append('    %s%s,' % (name, payload))
            if k < c and toks[k][1] == ',':
                k += 1
            continue
        k += 1
    for sv in SYNTHETIC_VARIANTS:
        if sv not in names:
            out.append('    %s,   // synthetic (R4/R6 projection target)' % sv)
    head = '#[allow(inconsistent_fields)]\n' if mode == 'verus' else ''
    return head + 'pub enum Details {\n' + '\n'.join(out) + '\n}\n', len(names)


def parse_template(path, seen=None):
    """Return list of segments: ('text', str) | ('fn', dict)."""
    seen = seen or set()
    segs = []
    lines = open(path).read().split('\n')
    i = 0
    cur = []
    while i < len(lines):
        ln = lines[i]
        m = re.match(r'\s*//@include\s+(\S+)', ln)
        if m:
            inc = os.path.join(os.path.dirname(path), m.group(1))
            if inc not in seen:
                seen.add(inc)
                if cur:
                    segs.append(('text', '\n'.join(cur)))
                    cur = []
                segs.extend(parse_template(inc, seen))
            i += 1
            continue
        if re.match(r'\s*//@details\s*$', ln):
            cur.append(gen_details()[0])
            i += 1
            continue
        m = re.match(r'\s*//@import\s+(\S+)\s+(.*)$', ln)
        if m:
            cur.append(import_contracts(os.path.join(os.path.dirname(path), m.group(1)), [x.strip() for x in m.group(2).split(',') if x.strip()]))
            i += 1
            continue
        m = re.match(r'\s*//@fn\s+(\S+)\s+(.*)$', ln)
        if m:
            if cur:
                segs.append(('text', '\n'.join(cur)))
                cur = []
            fn = dict(id=m.group(1), sig=[], pre=[], loops={}, hints=[], rewrites=[], params=None, opts={}, post=[])
            for kv in re.findall(r'(\w+)=("(?:[^"\\]|\\.)*"|\S+)', m.group(2)):
                v = kv[1]
                if v.startswith('"'):
                    v = v[1:-1].replace('\\"', '"')
                fn['opts'][kv[0]] = v
            i += 1
            mode = ('sig', None)
            while i < len(lines) and not re.match(r'\s*//@endfn', lines[i]):
                l2 = lines[i]
                d = re.match(r'\s*//@(\w+)\s*(.*)$', l2)
                if d:
                    kind, rest = d.group(1), d.group(2)
                    if kind == 'pre':
                        mode = ('pre', None)
                    elif kind == 'tail':
                        mode = ('tail', None)
                    elif kind == 'loop':
                        k = int(rest.strip())
                        fn['loops'][k] = []
                        mode = ('loop', k)
                    elif kind == 'hint':
                        mm = re.match(r'(before|after)\s+"((?:[^"\\]|\\.)*)"\s*(?:#(\d+))?\s*(\?)?', rest)
                        if not mm:
                            raise SystemExit('bad hint directive: ' + l2)
                        h = dict(where=mm.group(1), snippet=mm.group(2).replace('\\"', '"'), occ=int(mm.group(3) or 0), optional=bool(mm.group(4)), text=[])
                        fn['hints'].append(h)
                        mode = ('hint', h)
                    elif kind == 'rewrite':
                        mm = re.match(r'"((?:[^"\\]|\\.)*)"\s*=>\s*"((?:[^"\\]|\\.)*)"\s*(\?)?', rest)
                        if not mm:
                            raise SystemExit('bad rewrite directive: ' + l2)
                        fn['rewrites'].append(dict(frm=mm.group(1).replace('\\"', '"'), to=mm.group(2).replace('\\"', '"'), optional=bool(mm.group(3))))
                    elif kind == 'rewrite_block':
                        mm = re.match(r'"((?:[^"\\]|\\.)*)"\s*=>\s*"((?:[^"\\]|\\.)*)"\s*(\?)?', rest)
                        if not mm:
                            raise SystemExit('bad rewrite_block directive: ' + l2)
                        fn['rewrites'].append(dict(frm=mm.group(1).replace('\\"', '"'), to=mm.group(2).replace('\\"', '"'), optional=bool(mm.group(3)), call=True, block=True))
                    elif kind == 'rewrite_call':
                        mm = re.match(r'"((?:[^"\\]|\\.)*)"\s*=>\s*"((?:[^"\\]|\\.)*)"\s*(\?)?', rest)
                        if not mm:
                            raise SystemExit('bad rewrite_call directive: ' + l2)
                        fn['rewrites'].append(dict(frm=mm.group(1).replace('\\"', '"'), to=mm.group(2).replace('\\"', '"'), optional=bool(mm.group(3)), call=True))
                    elif kind == 'params':
                        fn['params'] = [x.strip() for x in rest.split(',') if x.strip()]
                    elif kind == 'sig':
                        mode = ('sig', None)
                    else:
                        raise SystemExit('unknown directive in fn block: ' + l2)
                else:
                    if mode[0] == 'sig':
                        fn['sig'].append(l2)
                    elif mode[0] == 'pre':
                        fn['pre'].append(l2)
                    elif mode[0] == 'tail':
                        fn['post'].append(l2)
                    elif mode[0] == 'loop':
                        fn['loops'][mode[1]].append(l2)
                    elif mode[0] == 'hint':
                        mode[1]['text'].append(l2)
                i += 1
            segs.append(('fn', fn))
            i += 1
            continue
        cur.append(ln)
        i += 1
    if cur:
        segs.append(('text', '\n'.join(cur)))
    return segs


def import_contracts(unit_path, names):
    """Restate contracts proved in another unit as external_body signatures (modular verification: the caller is
    checked against the callee's contract).  The text is copied from the proving unit's template on every run, so
    the two cannot drift; vrun adds the proving unit to the property's unit list."""
    unit = os.path.basename(unit_path).rsplit('.', 1)[0]
    out = []
    segs = parse_template(unit_path)
    have = {}
    for kind, seg in segs:
        if kind == 'fn':
            have[seg['id']] = seg
            have.setdefault(seg['id'].split('::')[-1], seg)
    for n in names:
        if n not in have:
            raise SystemExit('import: %s not found in %s' % (n, unit_path))
        sig = '\n'.join(have[n]['sig']).rstrip()
        out.append('// @proved-in %s %s\n#[verifier::external_body]\n%s\n{ unimplemented!() }\n' % (unit, have[n]['id'], sig))
    return '\n'.join(out)


def extract_source(fn):
    """Locate the function (or arm / closure) in the repository. Returns dict with sig, body, meta."""
    src_path = os.path.join(REPO, fn['opts']['src'])
    if not os.path.exists(src_path):
        raise LostAnchor('source file %s missing' % fn['opts']['src'])
    src = open(src_path).read()
    if 'field' in fn['opts']:
        # R7 (attribute lifting): `key = <expr>` of the `#[attr(..)]` attribute on a struct field — the expression runs in
        # the constructor the attribute macro generates; it becomes the body of the lifted function, its free variables
        # (earlier fields) are the parameters.  opts: item=<StructName> field=<f> attr=<builder> key=<default>
        try:
            fa = rsx.find_struct_field_attr(src, fn['opts']['item'], fn['opts']['field'], fn['opts'].get('attr', 'builder'), fn['opts'].get('key', 'default'))
        except LookupError as e:
            raise LostAnchor('%s: %s' % (fn['id'], e))
        meta = dict(id=fn['id'], src=fn['opts']['src'], item='%s.%s #[%s(%s = ..)]' % (fn['opts']['item'], fn['opts']['field'], fn['opts'].get('attr', 'builder'), fn['opts'].get('key', 'default')),
                    line=fa['line'], end_line=fa['end_line'], sha256=hashlib.sha256(fa['body'].encode()).hexdigest()[:16], kind='attr-expr')
        return dict(sig='', body=fa['body'], meta=meta, raw='fn __attr_expr() {' + fa['body'] + '}')
    f = rsx.find_fn(src, fn['opts']['item'])
    body = rsx.strip_comments(f['body'])
    meta = dict(id=fn['id'], src=fn['opts']['src'], item=fn['opts']['item'], line=f['line'], end_line=f['end_line'],
                sha256=hashlib.sha256((f['sig'] + '{' + f['body'] + '}').encode()).hexdigest()[:16], kind='fn')
    raw = f['sig'] + ' {' + f['body'] + '}'
    if 'sub' in fn['opts']:
        # closure / block lifting: take the brace block that follows the anchor snippet
        pos = rsx.find_snippet(body, fn['opts']['sub'])
        if pos is None:
            raise LostAnchor('%s: sub-block anchor not found: %r' % (fn['id'], fn['opts']['sub']))
        rest = body[pos[1]:]
        toks = rsx.sig_tokens(rest)
        if not toks or toks[0][1] != '{':
            raise LostAnchor('%s: no block after anchor %r' % (fn['id'], fn['opts']['sub']))
        c = rsx.match_close(toks, 0)
        body = rest[toks[0][3]:toks[c][2]]
        meta['kind'] = 'block'
        meta['sha256'] = hashlib.sha256(body.encode()).hexdigest()[:16]
    if 'from' in fn['opts']:
        # statement-suffix lifting: the body from the anchor snippet to the end of the function; the statements before it
        # are not verified (their results are parameters of the lifted function)
        pos = rsx.find_snippet(body, fn['opts']['from'])
        if pos is None:
            raise LostAnchor('%s: suffix anchor not found: %r' % (fn['id'], fn['opts']['from']))
        meta['kind'] = 'suffix'
        meta['dropped_prefix_chars'] = pos[0]
        body = body[pos[0]:]
        meta['sha256'] = hashlib.sha256(body.encode()).hexdigest()[:16]
    if 'until' in fn['opts']:
        # statement-prefix lifting: the body up to (not including) the anchor snippet; what follows is not verified and the
        # template's //@tail supplies the result expression of the lifted prefix
        pos = rsx.find_snippet(body, fn['opts']['until'])
        if pos is None:
            raise LostAnchor('%s: prefix anchor not found: %r' % (fn['id'], fn['opts']['until']))
        meta['kind'] = 'prefix'
        meta['dropped_suffix_chars'] = len(body) - pos[0]
        body = body[:pos[0]]
        meta['sha256'] = hashlib.sha256(body.encode()).hexdigest()[:16]
    if 'arm' in fn['opts']:
        scr, pat = fn['opts']['arm'].split('=>', 1)
        arm, mt = rsx.find_arm(body, scr.strip(), pat.strip())
        meta['kind'] = 'arm'
        meta['arm_pattern'] = re.sub(r'\s+', ' ', arm['pat'])
        meta['arm_count'] = len(mt['arms'])
        meta['sha256'] = hashlib.sha256(arm['expr'].encode()).hexdigest()[:16]
        ex = arm['expr'].strip()
        if ex.startswith('{') and ex.endswith('}') and rsx.match_close(rsx.sig_tokens(ex), 0) == len(rsx.sig_tokens(ex)) - 1:
            body = ex[1:-1]
        else:
            body = ex
        meta['arm_guard'] = arm['guard']
    return dict(sig=f['sig'], body=body, meta=meta, raw=raw)


def drop_cfg_arms(body, feats):
    """R9: remove match arms gated by `#[cfg(feature = "<f>")]` for the listed features (third-party codecs whose APIs are
    not modelled); `#[cfg(feature = ..)]` attributes of the remaining arms are stripped so they are verified regardless of
    the enabled features."""
    n = 0
    while True:
        toks = rsx.sig_tokens(body)
        hit = None
        for i, t in enumerate(toks):
            if t[1] == '#' and i + 1 < len(toks) and toks[i + 1][1] == '[':
                c = rsx.match_close(toks, i + 1)
                attr = body[t[2]:toks[c][3]]
                m = re.match(r'#\[\s*cfg\s*\(\s*feature\s*=\s*"(\w+)"\s*\)\s*\]', attr)
                if not m:
                    continue
                if m.group(1) in feats:
                    # find `=>` then the arm body
                    p = c + 1
                    while not (toks[p][1] == '=' and toks[p + 1][1] == '>'):
                        p += 1
                    x = p + 2
                    if toks[x][1] == '{':
                        e = rsx.match_close(toks, x)
                        end = toks[e][3]
                        if e + 1 < len(toks) and toks[e + 1][1] == ',':
                            end = toks[e + 1][3]
                    else:
                        y = x
                        depth = 0
                        while not (depth == 0 and toks[y][1] == ','):
                            if toks[y][1] in '([{':
                                depth += 1
                            elif toks[y][1] in ')]}':
                                depth -= 1
                            y += 1
                        end = toks[y][3]
                    hit = (t[2], end)
                else:
                    hit = (t[2], toks[c][3])
                break
        if not hit:
            return body, n
        body = body[:hit[0]] + body[hit[1]:]
        n += 1


def apply_rewrites(fn, body, meta, truncate=True):
    log = []
    if 'drop_cfg_arms' in fn['opts']:
        body, n = drop_cfg_arms(body, fn['opts']['drop_cfg_arms'].split(','))
        if n:
            log.append('R9 cfg(feature) arms dropped/ungated (%s) x%d' % (fn['opts']['drop_cfg_arms'], n))
    for rw in fn['rewrites']:
        rx = re.compile(rsx.ws_insensitive_regex(rw['frm']))
        if rw.get('call'):
            # replace from the anchor (which ends with an opening parenthesis) through its matching close
            m = rx.search(body)
            n = 0
            if m:
                depth = 0
                j = (m.start() + body[m.start():m.end()].rindex('{')) if rw.get('block') else (m.start() + body[m.start():m.end()].index('('))
                toks = rsx.tokenize(body[j:])
                end = None
                for k, t, a, b in toks:
                    if k == 'punct' and t in '([{':
                        depth += 1
                    elif k == 'punct' and t in ')]}':
                        depth -= 1
                        if depth == 0:
                            end = j + b
                            break
                if end:
                    to = rw['to']
                    if '$' in to and not rw.get('block'):
                        # $1, $2, ...: the call's arguments (split at top-level commas), so that the rewrite does not depend
                        # on how the argument expressions are written
                        args, d0, cur = [], 0, ''
                        for k, t, a0, b0 in rsx.tokenize(body[j + 1:end - 1]):
                            if k == 'punct' and t in '([{':
                                d0 += 1
                            elif k == 'punct' and t in ')]}':
                                d0 -= 1
                            if k == 'punct' and t == ',' and d0 == 0:
                                args.append(cur.strip()); cur = ''
                            else:
                                cur += body[j + 1 + a0:j + 1 + b0] + ' '
                        if cur.strip():
                            args.append(cur.strip())
                        for ai in range(len(args), 0, -1):
                            to = to.replace('$%d' % ai, args[ai - 1])
                    body = body[:m.start()] + to + body[end:]
                    n = 1
        else:
            body, n = rx.subn(lambda m: rw['to'], body)
        if n == 0 and not rw['optional']:
            raise LostAnchor('%s: rewrite anchor not found: %r' % (fn['id'], rw['frm']))
        if n:
            log.append('per-fn rewrite %r => %r x%d' % (rw['frm'], rw['to'], n))
    for name, f in GLOBAL_REWRITES:
        body, n = f(body)
        if n:
            log.append('%s x%d' % (name, n))
    meta['rewrites'] = log
    return body


def apply_truncate(fn, body, meta):
    if fn['opts'].get('truncate', 'yes') != 'no':
        body, n = r10_truncate_casts(body)
        if n:
            meta['rewrites'].append('R10 #[verifier::truncate] on int casts x%d' % n)
    return body


def splice(fn, body):
    """Insert loop specs and hints. Works on positions of the (rewritten) body."""
    inserts = []  # (pos, text)
    loops = rsx.find_loops(body)
    for k, spec in fn['loops'].items():
        if k >= len(loops):
            raise LostAnchor('%s: loop #%d not found (body has %d loops)' % (fn['id'], k, len(loops)))
        inserts.append((loops[k]['brace_pos'], '\n' + '\n'.join(spec) + '\n'))
    if len(loops) > len(fn['loops']):
        # loops without a spec: Verus will demand invariants/decreases; report as construct outside the contract
        pass
    for h in fn['hints']:
        pos = rsx.find_snippet(body, h['snippet'], h['occ'])
        if pos is None:
            # a proof hint whose anchor text is gone is dropped (the obligation it helped is then decided without it);
            # recorded so that a resulting failure can be told apart from a regression by the Kani arbiter
            fn.setdefault('dropped_hints', []).append(h['snippet'])
            continue
        at = pos[0] if h['where'] == 'before' else pos[1]
        inserts.append((at, '\n' + '\n'.join(h['text']) + '\n'))
    table = {}
    for n, (pos, txt) in enumerate(sorted(inserts, key=lambda x: -x[0])):
        key = ' __VERIF_SPLICE_%d__ ' % n
        table[key.strip()] = txt
        body = body[:pos] + key + body[pos:]
    return body, table


def unsplice(body, table):
    for k, v in table.items():
        body = body.replace(k, v)
    return body


def sig_fn_params(sigtext):
    s = rsx.strip_comments('\n'.join(sigtext))
    m = re.search(r'\bfn\b', s)
    return rsx.param_names(s[m.start():])


def generate(template, out_verus, out_raw=None, out_meta=None):
    segs = parse_template(template)
    out = []
    raws = []
    metas = []
    for kind, seg in segs:
        if kind == 'text':
            out.append(seg)
            continue
        fn = seg
        ex = extract_source(fn)
        meta = ex['meta']
        # parameter-name fidelity check
        if meta['kind'] == 'fn' and fn['opts'].get('params', 'check') != 'skip':
            want = fn['params'] if fn['params'] is not None else sig_fn_params(fn['sig'])
            have = rsx.param_names(ex['sig'])
            if want != have:
                raise LostAnchor('%s: parameter list changed: contract has %s, source has %s' % (fn['id'], want, have))
        body = apply_rewrites(fn, ex['body'], meta)
        body, table = splice(fn, body)
        body = apply_truncate(fn, body, meta)
        body = unsplice(body, table)
        meta['dropped_hints'] = fn.get('dropped_hints', [])
        meta['contract_lines'] = len([x for x in fn['sig'] if x.strip()])
        start_line = sum(x.count('\n') + 1 for x in out) + 2
        text = '\n'.join(fn['sig']) + '\n{\n' + '\n'.join(fn['pre']) + '\n' + body + '\n' + '\n'.join(fn['post']) + '\n}\n'
        meta['gen_line_start'] = start_line
        meta['gen_line_end'] = start_line + text.count('\n')
        meta['n_requires'] = len(re.findall(r'\brequires\b', '\n'.join(fn['sig'])))
        meta['n_ensures'] = len(re.findall(r'\bensures\b', '\n'.join(fn['sig'])))
        meta['n_loops'] = len(fn['loops'])
        out.append(text)
        raws.append((fn['id'], ex['raw']))
        metas.append(meta)
    text = '#![feature(allocator_api)]\n' + '\n'.join(out)
    os.makedirs(os.path.dirname(out_verus), exist_ok=True)
    open(out_verus, 'w').write(text)
    if out_raw:
        seen = set()
        with open(out_raw, 'w') as f:
            for fid, raw in raws:
                if raw in seen:
                    continue
                seen.add(raw)
                f.write('// extracted verbatim: %s\n%s\n\n' % (fid, raw))
    if out_meta:
        json.dump(metas, open(out_meta, 'w'), indent=1)
    return metas


if __name__ == '__main__':
    try:
        ms = generate(sys.argv[1], sys.argv[2], sys.argv[3] if len(sys.argv) > 3 else None, sys.argv[4] if len(sys.argv) > 4 else None)
        for m in ms:
            print(m['id'], m['src'], m['line'], m['rewrites'])
    except LostAnchor as e:
        print('LOST-ANCHOR:', e)
        sys.exit(2)
