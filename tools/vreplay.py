"""vreplay — `./check <id> --replay <file>`: run a replay file against the real crate (current /repo tree)."""
import json
import subprocess
import vcex


def replay_file(path):
    j = json.load(open(path))
    print('replay of %s  (obligation %s, back end %s)' % (path, j.get('obligation'), j.get('backend')))
    c = j.get('counterexample') or {}
    if not c.get('scenario'):
        print('NO-SCENARIO: the verifier produced no concrete input for this obligation; verifier output follows')
        print(j.get('verifier_output', '')[:4000])
        return 0
    if not vcex.build_replay():
        print('replay binary could not be built')
        return 2
    rc, out = vcex.run_scenario(c['scenario'])
    print(out)
    if rc == 1:
        print('VIOLATION property=%s replay=%s' % (j.get('property'), path))
    return rc
