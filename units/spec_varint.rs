// ---- spec vocabulary for varints (DESIGN.md §5), transcribed from the Avro specification -------
pub open spec fn varint(u: nat) -> Seq<u8> decreases u {
    if u < 128 { seq![u as u8] } else { seq![(128 + u % 128) as u8] + varint(u / 128) }
}
pub open spec fn zigzag(n: int) -> nat { if n >= 0 { (2 * n) as nat } else { (-2 * n - 1) as nat } }
pub open spec fn long(n: int) -> Seq<u8> { varint(zigzag(n)) }

/// `after` extends `before` by a prefix of `full`
pub open spec fn is_prefix_ext(before: Seq<u8>, after: Seq<u8>, full: Seq<u8>) -> bool {
    exists|k: int| #![auto] 0 <= k <= full.len() && after == before + full.subrange(0, k)
}
/// exclusive upper bound on the value left to emit after i groups of 7 bits of a 64-bit word
pub open spec fn cap(i: int) -> nat {
    if i <= 0 { 0x1_0000_0000_0000_0000 } else if i == 1 { 0x200_0000_0000_0000 } else if i == 2 { 0x4_0000_0000_0000 }
    else if i == 3 { 0x800_0000_0000 } else if i == 4 { 0x10_0000_0000 } else if i == 5 { 0x2000_0000 }
    else if i == 6 { 0x40_0000 } else if i == 7 { 0x8000 } else if i == 8 { 0x100 } else if i == 9 { 2 } else { 0 }
}

/// Result of reading one varint the way the specification defines it, bounded to 10 groups (64-bit decoders).
pub enum VParse { Done(nat, nat), Eof, Overflow }   // Done(value, bytes consumed)

/// j = number of groups already consumed (0 at the start)
pub open spec fn vparse(s: Seq<u8>, j: nat) -> VParse decreases 10 - j {
    if j > 9 { VParse::Overflow }
    else if s.len() == 0 { VParse::Eof }
    else if s[0] < 128 { VParse::Done(s[0] as nat, 1) }
    else {
        match vparse(s.skip(1), j + 1) {
            VParse::Done(v, k) => VParse::Done((s[0] as nat % 128) + 128 * v, k + 1),
            VParse::Eof => VParse::Eof,
            VParse::Overflow => VParse::Overflow,
        }
    }
}
pub open spec fn pow128(j: nat) -> nat decreases j { if j == 0 { 1 } else { 128 * pow128((j - 1) as nat) } }
pub open spec fn unzigzag(u: nat) -> int { if u % 2 == 0 { (u / 2) as int } else { -((u / 2) as int) - 1 } }
pub spec const TWO64: nat = 0x1_0000_0000_0000_0000nat;

pub proof fn lemma_zigzag_inverse(n: int)
    ensures unzigzag(zigzag(n)) == n
{}
pub proof fn lemma_unzigzag_inverse(u: nat)
    ensures zigzag(unzigzag(u)) == u
{}
pub proof fn lemma_zigzag_range(n: int)
    requires -0x8000_0000_0000_0000 <= n < 0x8000_0000_0000_0000
    ensures zigzag(n) < 0x1_0000_0000_0000_0000
{}

pub proof fn lemma_varint_len(u: nat, k: int)
    requires 1 <= k <= 10, u < p7(k)
    ensures 1 <= varint(u).len() <= k
    decreases u
{
    if u >= 128 {
        assert(p7(k) / 128 == p7(k - 1));
        lemma_varint_len(u / 128, k - 1);
    }
}

/// Round trip at the spec level: reading the specification's encoding of u (followed by anything) yields u and
/// consumes exactly that encoding.  This is the lemma that turns the two contracts into C01's statement.
pub proof fn lemma_vparse_varint(u: nat, tail: Seq<u8>, j: nat)
    requires j <= 9, u < cap(j as int)
    ensures vparse(varint(u) + tail, j) == VParse::Done(u, varint(u).len())
    decreases u
{
    let s = varint(u) + tail;
    if u < 128 {
        assert(s[0] == u as u8);
    } else {
        assert(s[0] == (128 + u % 128) as u8);
        assert(s.skip(1) =~= varint(u / 128) + tail);
        assert(cap(j as int) / 128 == cap(j as int + 1));
        assert(j < 9);
        lemma_vparse_varint(u / 128, tail, j + 1);
    }
}

/// Prefix-freeness: two spec encodings that agree as prefixes of the same stream are the same number.
pub proof fn lemma_varint_prefix_free(a: nat, b: nat, x: Seq<u8>, y: Seq<u8>)
    requires a < TWO64, b < TWO64, varint(a) + x == varint(b) + y
    ensures a == b, x == y
{
    lemma_vparse_varint(a, x, 0);
    lemma_vparse_varint(b, y, 0);
    assert(x =~= (varint(a) + x).skip(varint(a).len() as int));
    assert(y =~= (varint(b) + y).skip(varint(b).len() as int));
}

pub open spec fn p7(j: int) -> nat {
    if j <= 0 { 1 } else if j == 1 { 0x80 } else if j == 2 { 0x4000 } else if j == 3 { 0x20_0000 } else if j == 4 { 0x1000_0000 }
    else if j == 5 { 0x8_0000_0000 } else if j == 6 { 0x400_0000_0000 } else if j == 7 { 0x2_0000_0000_0000 }
    else if j == 8 { 0x100_0000_0000_0000 } else if j == 9 { 0x8000_0000_0000_0000 } else { 0x40_0000_0000_0000_0000 }
}
pub open spec fn vlift(p: VParse, acc: nat, j: nat) -> VParse {
    match p { VParse::Done(v, k) => VParse::Done(acc + p7(j as int) * v, k + j), VParse::Eof => VParse::Eof, VParse::Overflow => VParse::Overflow }
}
/// what the decoder's accumulate step computes (bit level)
pub open spec fn group_or(i: u64, b: u8, j: int) -> u64 {
    i | (((b & 0x7F) as u64) << ((j * 7) as u64))
}
pub proof fn lemma_group(i: u64, b: u8, j: int)
    requires 0 <= j <= 9, (i as nat) < p7(j)
    ensures
        j <= 8 ==> group_or(i, b, j) as nat == i as nat + p7(j) * (b as nat % 128) && (group_or(i, b, j) as nat) < p7(j + 1),
        j == 9 ==> group_or(i, b, j) as nat == (i as nat + p7(9) * (b as nat % 128)) % TWO64,
{
    let c: u64 = (b & 0x7F) as u64;
    assert(c == b % 128 && c < 128) by (bit_vector) requires c == (b & 0x7F) as u64;
    if j == 0 { assert(i < 1 ==> (i | (c << 0)) == c) by (bit_vector); }
    else if j == 1 { assert(i < 0x80 && c < 128 ==> (i | (c << 7)) == i + 0x80 * c) by (bit_vector); }
    else if j == 2 { assert(i < 0x4000 && c < 128 ==> (i | (c << 14)) == i + 0x4000 * c) by (bit_vector); }
    else if j == 3 { assert(i < 0x20_0000 && c < 128 ==> (i | (c << 21)) == i + 0x20_0000 * c) by (bit_vector); }
    else if j == 4 { assert(i < 0x1000_0000 && c < 128 ==> (i | (c << 28)) == i + 0x1000_0000 * c) by (bit_vector); }
    else if j == 5 { assert(i < 0x8_0000_0000 && c < 128 ==> (i | (c << 35)) == i + 0x8_0000_0000 * c) by (bit_vector); }
    else if j == 6 { assert(i < 0x400_0000_0000 && c < 128 ==> (i | (c << 42)) == i + 0x400_0000_0000 * c) by (bit_vector); }
    else if j == 7 { assert(i < 0x2_0000_0000_0000 && c < 128 ==> (i | (c << 49)) == i + 0x2_0000_0000_0000 * c) by (bit_vector); }
    else if j == 8 { assert(i < 0x100_0000_0000_0000 && c < 128 ==> (i | (c << 56)) == i + 0x100_0000_0000_0000 * c) by (bit_vector); }
    else { assert(i < 0x8000_0000_0000_0000 && c < 128 ==> (i | (c << 63)) == i + 0x8000_0000_0000_0000 * (c % 2)) by (bit_vector);
           assert((i as nat + p7(9) * (c as nat)) % TWO64 == i as nat + p7(9) * (c as nat % 2)) by (nonlinear_arith) requires (i as nat) < p7(9), p7(9) == 0x8000_0000_0000_0000, TWO64 == 0x1_0000_0000_0000_0000, c < 128; }
}

/// One iteration of the decoder loop, at the level of the specification parse.
pub proof fn lemma_vparse_step(s0: Seq<u8>, j: int, i: u64, b: u8)
    requires 0 <= j <= 9, j < s0.len(), s0[j] == b, (i as nat) < p7(j),
        vparse(s0, 0) == vlift(vparse(s0.skip(j), j as nat), i as nat, j as nat),
    ensures
        (b >> 7) == 0 <==> b < 128,
        b < 128 ==> (vparse(s0, 0) matches VParse::Done(v, k) && k == j + 1 && group_or(i, b, j) as nat == v % TWO64),
        b >= 128 && j <= 8 ==> vparse(s0, 0) == vlift(vparse(s0.skip(j + 1), (j + 1) as nat), group_or(i, b, j) as nat, (j + 1) as nat)
            && (group_or(i, b, j) as nat) < p7(j + 1),
        b >= 128 && j == 9 ==> vparse(s0, 0) is Overflow,
{
    assert((b >> 7) == 0 <==> b < 128) by (bit_vector);
    lemma_group(i, b, j);
    let s = s0.skip(j);
    assert(s[0] == b);
    assert(s.skip(1) =~= s0.skip(j + 1));
    let g = group_or(i, b, j) as nat;
    if b < 128 {
        assert(vparse(s, j as nat) == VParse::Done(b as nat, 1));
        assert(b as nat % 128 == b as nat);
        if j <= 8 {
            assert(g < TWO64);
            assert(g % TWO64 == g) by (nonlinear_arith) requires g < TWO64, TWO64 == 0x1_0000_0000_0000_0000;
        }
    } else if j <= 8 {
        let inner = vparse(s0.skip(j + 1), (j + 1) as nat);
        match inner {
            VParse::Done(v, k) => {
                assert(vparse(s, j as nat) == VParse::Done((b as nat % 128) + 128 * v, k + 1));
                assert(p7(j) * 128 == p7(j + 1));
                assert((i as nat) + p7(j) * ((b as nat % 128) + 128 * v) == g + p7(j + 1) * v) by (nonlinear_arith)
                    requires g == i as nat + p7(j) * (b as nat % 128), p7(j) * 128 == p7(j + 1);
            },
            _ => {},
        }
    } else {
        assert(vparse(s0.skip(j + 1), (j + 1) as nat) is Overflow);
    }
}

/// the encoder's bit trick equals the specification's zig-zag
pub proof fn lemma_zigzag_bits(n: i64)
    ensures (((n << 1) ^ (n >> 63)) as u64) as nat == zigzag(n as int), zigzag(n as int) < TWO64
{
    let z = ((n << 1) ^ (n >> 63)) as u64;
    assert(n >= 0 ==> z == 2 * (n as u64)) by (bit_vector) requires z == ((n << 1) ^ (n >> 63)) as u64;
    assert(n < 0 ==> z == 2 * ((-(n + 1)) as u64) + 1) by (bit_vector) requires z == ((n << 1) ^ (n >> 63)) as u64;
}
/// the decoder's bit trick equals the specification's inverse zig-zag
pub proof fn lemma_unzigzag_bits(z: u64)
    ensures
        z & 0x1 == 0 ==> ((z >> 1) as i64) as int == unzigzag(z as nat),
        z & 0x1 != 0 ==> ((!(z >> 1)) as i64) as int == unzigzag(z as nat),
        (z as nat) % TWO64 == z as nat,
{
    assert(z & 0x1 == 0 <==> z % 2 == 0) by (bit_vector);
    assert(z >> 1 == z / 2) by (bit_vector);
    assert((z >> 1) < 0x8000_0000_0000_0000) by (bit_vector);
    let w = !(z >> 1);
    assert(w >= 0x8000_0000_0000_0000 && w == 0xffff_ffff_ffff_ffff - (z >> 1)) by (bit_vector) requires w == !(z >> 1);
    assert((w as i64) as int == w as int - 0x1_0000_0000_0000_0000) by (bit_vector) requires w >= 0x8000_0000_0000_0000;
}
