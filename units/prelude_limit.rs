// ---- the allocation limit as seen by its users: an uninterpreted value (one proof = every limit 0..=usize::MAX).
// `max_allocation_bytes` itself is under contract in unit U15 against a OnceLock model (A12); here its callers
// see only: "returns the value in force, which does not depend on the argument once set".
pub uninterp spec fn limit() -> usize;
pub const DEFAULT_MAX_ALLOCATION_BYTES: usize = 512 * 1024 * 1024;
#[verifier::external_body]
pub fn max_allocation_bytes(num_bytes: usize) -> (r: usize)
    ensures r == limit()
{ unimplemented!() }

/// R13: every data-sized zero-filled allocation in extracted code goes through here, so "no allocation request above the
/// limit" (C05) is the precondition of this function, checked at every call site for every value of limit().
#[verifier::external_body]
pub fn vec_zeroed(n: usize) -> (r: Vec<u8>)
    requires n <= limit(),
    ensures r@.len() == n, forall|i: int| 0 <= i < n ==> r@[i] == 0u8,
{ vec![0u8; n] }

/// R13: `v.reserve_exact(n)` on a data-driven count -> the requested capacity in bytes must be within the limit.
#[verifier::external_body]
pub fn vec_reserve_exact<T>(v: &mut Vec<T>, additional: usize)
    requires (old(v)@.len() + additional) * vstd::layout::size_of::<T>() <= limit(),
    ensures final(v)@ == old(v)@,
{ v.reserve_exact(additional) }

