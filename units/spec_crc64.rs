// ---- CRC-64-AVRO exactly as in the Avro specification ("Schema Fingerprints", fingerprint64 / initFPTable) ----
pub spec const EMPTY64: u64 = 0xc15d213aa4d7a795u64;
/// one iteration of initFPTable's inner loop: fp = (fp >>> 1) ^ (EMPTY & -(fp & 1L))
pub open spec fn tbl_step(fp: u64) -> u64 { (fp >> 1) ^ (if fp & 1 == 1 { EMPTY64 } else { 0u64 }) }
pub open spec fn tbl_iter(fp: u64, n: nat) -> u64 decreases n { if n == 0 { fp } else { tbl_step(tbl_iter(fp, (n - 1) as nat)) } }
/// FP_TABLE[i]
pub open spec fn fp_tbl(i: u64) -> u64 { tbl_iter(i, 8) }
/// fp = (fp >>> 8) ^ FP_TABLE[(int)(fp ^ buf[i]) & 0xff]
pub open spec fn crc_step(fp: u64, b: u8) -> u64 { (fp >> 8) ^ fp_tbl((fp ^ (b as u64)) & 0xff) }
pub open spec fn crc_from(fp: u64, data: Seq<u8>) -> u64 decreases data.len() {
    if data.len() == 0 { fp } else { crc_step(crc_from(fp, data.drop_last()), data.last()) }
}
pub open spec fn crc64avro(data: Seq<u8>) -> u64 { crc_from(EMPTY64, data) }
