// ---- recursion of decode_internal / encode_internal seen from a lifted arm (R7): the recursive call is taken at
// the enclosing function's contract.  The callee is a deterministic function of (schema, context, input): `dec_val`
// and `dec_len` are uninterpreted, so an arm is proved for every possible behaviour of the recursive call.
#[verifier::external_body] pub struct Names { x: u8 }
#[verifier::external_body] #[derive(Clone, Copy)] pub struct NsName { x: u8 }
pub type NamespaceRef = Option<NsName>;

pub uninterp spec fn dec_ok(schema: Schema, names: Names, ns: NamespaceRef, input: Seq<u8>) -> bool;
pub uninterp spec fn dec_val(schema: Schema, names: Names, ns: NamespaceRef, input: Seq<u8>) -> Value;
pub uninterp spec fn dec_len(schema: Schema, names: Names, ns: NamespaceRef, input: Seq<u8>) -> nat;

#[verifier::external_body]
pub fn decode_internal(schema: &Schema, names: &Names, enclosing_namespace: NamespaceRef, reader: &mut Source) -> (r: AvroResult<Value>)
    ensures
        final(reader).reliable() == old(reader).reliable(),
        match r {
            Ok(v) => dec_ok(*schema, *names, enclosing_namespace, old(reader)@) && v == dec_val(*schema, *names, enclosing_namespace, old(reader)@)
                && dec_len(*schema, *names, enclosing_namespace, old(reader)@) <= old(reader)@.len()
                && final(reader)@ == old(reader)@.skip(dec_len(*schema, *names, enclosing_namespace, old(reader)@) as int)
                // kind facts for the leaf schemas, PROVED for the corresponding arms in unit U4 (decode_arm_bytes/string/fixed):
                && (*schema is Bytes ==> v is Bytes) && (*schema is String ==> v is String)
                && (*schema matches Schema::Fixed(f) ==> v matches Value::Fixed(n, b) && n == f.size && b@.len() == f.size),
            Err(_) => true,
        },
{ unimplemented!() }
