// ---- recursion of encode_internal seen from a lifted arm (R7): `enc` is uninterpreted, so each arm is proved for
// every behaviour of the recursive call.  (A9 as seen by callers in U7/U9 is this same contract.)
pub uninterp spec fn enc(value: Value, schema: Schema, names: Names, ns: NamespaceRef) -> Seq<u8>;

/// the call appended exactly `x` and (C13) reported exactly that many bytes
pub open spec fn wrote(before: Seq<u8>, after: Seq<u8>, n: usize, x: Seq<u8>) -> bool { after =~= before + x && n as int == x.len() }

pub open spec fn grew(before: Seq<u8>, after: Seq<u8>) -> bool { exists|ext: Seq<u8>| #![auto] after == before + ext }

#[verifier::external_body]
pub fn encode_internal(value: &Value, schema: &Schema, names: &Names, enclosing_namespace: NamespaceRef, writer: &mut Sink) -> (r: AvroResult<usize>)
    ensures
        match r {
            Ok(n) => wrote(old(writer)@, final(writer)@, n, enc(*value, *schema, *names, enclosing_namespace)),
            Err(_) => true,
        },
{ unimplemented!() }

/// A6: `iter().position(..)` on symbol / schema lists (iterator adapters are outside the Verus subset)
#[verifier::external_body]
pub fn position_of_symbol(symbols: &Vec<String>, s: &String) -> (r: Option<usize>)
    ensures match r {
        Some(i) => i < symbols@.len() && symbols@[i as int] == *s && forall|j: int| 0 <= j < i ==> symbols@[j] != *s,
        None => forall|j: int| 0 <= j < symbols@.len() ==> symbols@[j] != *s }
{ unimplemented!() }
#[verifier::external_body]
pub fn position_of_null(schemas: &Vec<Schema>) -> (r: Option<usize>)
    ensures match r {
        Some(i) => i < schemas@.len() && schemas@[i as int] == Schema::Null && forall|j: int| 0 <= j < i ==> schemas@[j] != Schema::Null,
        None => forall|j: int| 0 <= j < schemas@.len() ==> schemas@[j] != Schema::Null }
{ unimplemented!() }
#[verifier::external_body]
pub fn string_as_bytes(s: &String) -> (r: &[u8]) ensures r@ == str_bytes(*s) { unimplemented!() }
#[verifier::external_body]
pub fn duration_into(d: Duration) -> (r: [u8; 12]) ensures r@ == dur_bytes(d) { unimplemented!() }
