// ---- R5: type projection of `types::Value` and `schema::Schema` -------------------------------
// Variant names and arities are checked against the repository on every run (vgen `//@enum`);
// payload types outside the Verus subset are opaque prelude types with uninterpreted views.

#[verifier::external_body]
#[verifier::reject_recursive_types(K)]
#[verifier::accept_recursive_types(V)]
pub struct HashMap<K, V> { k: std::marker::PhantomData<(K, V)> }

#[verifier::external_body] pub struct Decimal { x: u8 }
#[verifier::external_body] pub struct BigDecimal { x: u8 }
#[verifier::external_body] pub struct Uuid { x: u8 }
#[verifier::external_body] #[derive(Clone, Copy)] pub struct Duration { x: u8 }
#[verifier::external_body] pub struct Name { x: u8 }
#[verifier::external_body] pub struct Attributes { x: u8 }

/// A5: floats are bit patterns
pub uninterp spec fn f32_bits(x: f32) -> u32;
pub uninterp spec fn f64_bits(x: f64) -> u64;
pub assume_specification[f32::from_le_bytes](b: [u8; 4]) -> (r: f32) ensures le32(f32_bits(r)) == b@;
pub assume_specification[f64::from_le_bytes](b: [u8; 8]) -> (r: f64) ensures le64(f64_bits(r)) == b@;
pub assume_specification[f32::to_le_bytes](x: f32) -> (r: [u8; 4]) ensures r@ == le32(f32_bits(x));
pub assume_specification[f64::to_le_bytes](x: f64) -> (r: [u8; 8]) ensures r@ == le64(f64_bits(x));

/// A5: f32 -> f64 widening (`f64::from`), uninterpreted (no floating-point arithmetic is reasoned about)
pub uninterp spec fn f32_widen(x: f32) -> f64;
pub assume_specification[<f64 as From<f32>>::from](x: f32) -> (r: f64) ensures r == f32_widen(x);

/// A8: UTF-8 view of a String
pub uninterp spec fn str_bytes(s: String) -> Seq<u8>;
pub uninterp spec fn is_utf8(b: Seq<u8>) -> bool;
pub assume_specification[String::len](s: &String) -> (r: usize) ensures r == str_bytes(*s).len();
pub assume_specification[String::into_bytes](s: String) -> (r: Vec<u8>) ensures r@ == str_bytes(s);
pub assume_specification[String::from_utf8](buf: Vec<u8>) -> (r: Result<String, std::string::FromUtf8Error>)
    ensures match r { Ok(s) => str_bytes(s) == buf@ && is_utf8(buf@), Err(_) => !is_utf8(buf@) };

/// duration payload = 12 bytes (contract of `From<[u8;12]> for Duration`, proved in unit U6)
pub uninterp spec fn dur_bytes(d: Duration) -> Seq<u8>;
#[verifier::external_body]
pub fn duration_from(buf: [u8; 12]) -> (r: Duration) ensures dur_bytes(r) == buf@ { unimplemented!() }

pub enum Value {
    Null, Boolean(bool), Int(i32), Long(i64), Float(f32), Double(f64), Bytes(Vec<u8>), String(String),
    Fixed(usize, Vec<u8>), Enum(u32, String), Union(u32, Box<Value>), Array(Vec<Value>), Map(HashMap<String, Value>),
    Record(Vec<(String, Value)>), Date(i32), Decimal(Decimal), BigDecimal(BigDecimal), TimeMillis(i32), TimeMicros(i64),
    TimestampMillis(i64), TimestampMicros(i64), TimestampNanos(i64), LocalTimestampMillis(i64), LocalTimestampMicros(i64),
    LocalTimestampNanos(i64), Duration(Duration), Uuid(Uuid),
}

pub struct FixedSchema { pub size: usize }
pub struct EnumSchema { pub symbols: Vec<String> }
pub struct ArraySchema { pub items: Box<Schema> }
pub struct MapSchema { pub types: Box<Schema> }
pub struct UnionSchema { pub schemas: Vec<Schema> }
pub struct RecordField { pub name: String, pub schema: Schema }
pub struct RecordSchema { pub name: Name, pub fields: Vec<RecordField> }
pub enum InnerDecimalSchema { Bytes, Fixed(FixedSchema) }
pub struct DecimalSchema { pub precision: usize, pub scale: usize, pub inner: InnerDecimalSchema }
pub enum UuidSchema { String, Bytes, Fixed(FixedSchema) }
pub enum Schema {
    Null, Boolean, Int, Long, Float, Double, Bytes, String, Array(ArraySchema), Map(MapSchema), Union(UnionSchema),
    Record(RecordSchema), Enum(EnumSchema), Fixed(FixedSchema), Decimal(DecimalSchema), BigDecimal, Uuid(UuidSchema),
    Date, TimeMillis, TimeMicros, TimestampMillis, TimestampMicros, TimestampNanos, LocalTimestampMillis,
    LocalTimestampMicros, LocalTimestampNanos, Duration(FixedSchema), Ref { name: Name },
}

// opaque HashMap operations used by extracted code (A6); only sizes are modelled
pub uninterp spec fn hm_len<K, V>(m: HashMap<K, V>) -> nat;
impl<K, V> HashMap<K, V> {
    #[verifier::external_body]
    pub fn new() -> (r: Self) ensures hm_len(r) == 0 { unimplemented!() }
    #[verifier::external_body]
    pub fn len(&self) -> (r: usize) ensures r as nat == hm_len(*self) { unimplemented!() }
    #[verifier::external_body]
    pub fn insert(&mut self, k: K, v: V) -> (r: Option<V>) ensures hm_len(*old(self)) <= hm_len(*final(self)) <= hm_len(*old(self)) + 1 { unimplemented!() }
}

/// R13: `m.reserve(n)` on a data-driven count (HashMap): requested entries in bytes within the limit.
#[verifier::external_body]
pub fn hashmap_reserve<K, V>(m: &mut HashMap<K, V>, additional: usize)
    requires (hm_len(*old(m)) + additional) * vstd::layout::size_of::<(K, V)>() <= limit(),
    ensures hm_len(*final(m)) == hm_len(*old(m)),
{ unimplemented!() }
