// ---- prelude_core: model types and assumed contracts (DESIGN.md §4, A1–A6) -------------------
// Nothing in this file is repository code.  Every `external_body` / `assume_specification` here is
// listed in evidence.assumptions by the scan in vrun.py.

// A3: 64-bit target
global size_of usize == 8;

#[derive(PartialEq, Eq, Clone, Copy)]
pub enum ErrorKind { UnexpectedEof, Interrupted, WriteZero, InvalidData, Other }

pub struct IoError { pub k: ErrorKind }
impl IoError {
    pub fn kind(&self) -> (r: ErrorKind) ensures r == self.k { self.k }
}

// A1: std::io::Write contract.  `Sink` stands for any `W: Write` (R1).
#[verifier::external_body]
pub struct Sink { inner: Vec<u8> }
impl View for Sink { type V = Seq<u8>; uninterp spec fn view(&self) -> Seq<u8>; }
impl Sink {
    /// an in-memory sink (Vec<u8>): its write/write_all/flush never fail (std: `impl Write for Vec<u8>`)
    pub uninterp spec fn infallible(&self) -> bool;
    #[verifier::external_body]
    pub fn write(&mut self, buf: &[u8]) -> (r: Result<usize, IoError>)
        ensures final(self).infallible() == old(self).infallible(), match r {
            Ok(n) => n <= buf@.len() && final(self)@ == old(self)@ + buf@.subrange(0, n as int),
            Err(_) => final(self)@ == old(self)@ }
    { unimplemented!() }
    #[verifier::external_body]
    pub fn write_all(&mut self, buf: &[u8]) -> (r: Result<(), IoError>)
        ensures final(self).infallible() == old(self).infallible(), old(self).infallible() ==> r is Ok, match r {
            Ok(_) => final(self)@ == old(self)@ + buf@,
            Err(_) => exists|k: int| #![auto] 0 <= k <= buf@.len() && final(self)@ == old(self)@ + buf@.subrange(0, k) }
    { unimplemented!() }
    /// writer::Clearable::clear (Vec::clear for the in-memory sink)
    #[verifier::external_body]
    pub fn clear(&mut self) ensures final(self)@ == Seq::<u8>::empty() { unimplemented!() }
    #[verifier::external_body]
    pub fn flush(&mut self) -> (r: Result<(), IoError>)
        ensures final(self)@ == old(self)@, final(self).infallible() == old(self).infallible(), old(self).infallible() ==> r is Ok
    { unimplemented!() }
}

// A2: std::io::Read::read_exact contract.  `Source` stands for any `R: Read` (R1).
// `reliable()` marks an in-memory source (`&[u8]`): it fails only with UnexpectedEof and only when short.
#[verifier::external_body]
pub struct Source { inner: Vec<u8> }
impl View for Source { type V = Seq<u8>; uninterp spec fn view(&self) -> Seq<u8>; }
impl Source {
    pub uninterp spec fn reliable(&self) -> bool;
    #[verifier::external_body]
    pub fn read_exact(&mut self, buf: &mut [u8]) -> (r: Result<(), IoError>)
        ensures
            final(buf)@.len() == old(buf)@.len(),
            final(self).reliable() == old(self).reliable(),
            match r {
                Ok(_) => old(self)@.len() >= old(buf)@.len()
                    && final(buf)@ == old(self)@.subrange(0, old(buf)@.len() as int)
                    && final(self)@ == old(self)@.skip(old(buf)@.len() as int),
                Err(e) => (e.k == ErrorKind::UnexpectedEof ==> old(self)@.len() < old(buf)@.len())
                    && (old(self).reliable() ==> e.k == ErrorKind::UnexpectedEof)
                    && (old(self)@.len() < old(buf)@.len() ==> e.k == ErrorKind::UnexpectedEof) },
            old(self).reliable() && old(self)@.len() >= old(buf)@.len() ==> r is Ok,
    { unimplemented!() }
}

// R4: error type projection — generated on every run from avro/src/error.rs (all variants, payload types mapped)
#[verifier::external_body] pub struct ExtErr { x: u8 }
#[verifier::external_type_specification] #[verifier::external_body] pub struct ExFromUtf8Error(std::string::FromUtf8Error);
#[verifier::external_type_specification] #[verifier::external_body] pub struct ExUtf8Error(std::str::Utf8Error);
//@details
//@include prelude_limit.rs
//@include prelude_value.rs
pub enum ValueKind { Null, Boolean, Int, Long, Float, Double, Bytes, String, Fixed, Enum, Union, Array, Map, Record, Date, Decimal, BigDecimal, TimeMillis, TimeMicros, TimestampMillis, TimestampMicros, TimestampNanos, LocalTimestampMillis, LocalTimestampMicros, LocalTimestampNanos, Duration, Uuid }
#[derive(PartialEq, Eq, Clone, Copy, Structural)]
pub enum SchemaKind { Null, Boolean, Int, Long, Float, Double, Bytes, String, Array, Map, Union, Record, Enum, Fixed, Decimal, BigDecimal, Uuid, Date, TimeMillis, TimeMicros, TimestampMillis, TimestampMicros, TimestampNanos, LocalTimestampMillis, LocalTimestampMicros, LocalTimestampNanos, Duration, Ref }
pub struct Error { pub details: Box<Details> }
pub type AvroResult<T> = Result<T, Error>;
impl vstd::std_specs::convert::FromSpecImpl<Details> for Error {
    open spec fn obeys_from_spec() -> bool { true }
    open spec fn from_spec(details: Details) -> Self { Error { details: Box::new(details) } }
}
impl From<Details> for Error {
    fn from(details: Details) -> (r: Self) { Self { details: Box::new(details) } }
}
impl Error {
    pub fn new(details: Details) -> (r: Self) ensures *r.details == details { Self { details: Box::new(details) } }
    pub fn into_details(self) -> (r: Details) ensures r == *self.details { *self.details }
    pub fn details(&self) -> (r: &Details) ensures *r == *self.details { &*self.details }
}

// A15: Verus models `?` through an uninterpreted `spec_from`; Rust defines it as `From::from` (reference, "?" operator).
pub mod ax {
    use super::*;
    #[verifier::external_body]
    pub broadcast proof fn axiom_question_mark_from_details(d: Details, e: Error)
        ensures #[trigger] vstd::std_specs::control_flow::spec_from::<Error, Details>(d, e) ==> e == (Error { details: Box::new(d) })
    {}
    /// `?` on a Result whose error type is already `Error` uses the reflexive `impl From<T> for T` (identity)
    #[verifier::external_body]
    pub broadcast proof fn axiom_question_mark_identity(a: Error, b: Error)
        ensures #[trigger] vstd::std_specs::control_flow::spec_from::<Error, Error>(a, b) ==> a == b
    {}
}
broadcast use {ax::axiom_question_mark_from_details, ax::axiom_question_mark_identity};

// A4: endianness helpers on a little-endian target.
pub assume_specification[u64::to_le](x: u64) -> (r: u64) ensures r == x;
pub assume_specification[u64::from_le](x: u64) -> (r: u64) ensures r == x;
// A6: std integer helpers without a vstd specification (doc contract of core::num)
pub assume_specification[<i64>::checked_neg](x: i64) -> (r: Option<i64>)
    ensures r == (if x == i64::MIN { None::<i64> } else { Some((-x) as i64) });
pub assume_specification[<u8 as From<bool>>::from](b: bool) -> (r: u8) ensures r == (if b { 1u8 } else { 0u8 });

// little-endian byte strings (spec vocabulary §5) and A4/A6 helpers
pub open spec fn le32(x: u32) -> Seq<u8> { seq![(x % 256) as u8, ((x / 0x100) % 256) as u8, ((x / 0x1_0000) % 256) as u8, ((x / 0x100_0000) % 256) as u8] }
pub open spec fn le64(x: u64) -> Seq<u8> { le32((x % 0x1_0000_0000) as u32) + le32((x / 0x1_0000_0000) as u32) }
// (std's integer to_le_bytes/from_le_bytes have a const-generic array length Verus cannot name in assume_specification;
//  extracted calls are routed through these wrappers by logged per-function rewrites.)
#[verifier::external_body] pub fn i64_to_le_bytes(x: i64) -> (r: [u8; 8]) ensures r@ == le64(x as u64) { x.to_le_bytes() }
#[verifier::external_body] pub fn u32_to_le_bytes(x: u32) -> (r: [u8; 4]) ensures r@ == le32(x) { x.to_le_bytes() }
#[verifier::external_body] pub fn u32_from_le_bytes(b: [u8; 4]) -> (r: u32) ensures le32(r) == b@ { u32::from_le_bytes(b) }
#[verifier::external_body] pub fn u32_to_be_bytes(x: u32) -> (r: [u8; 4]) ensures r@ == le32(x).reverse() { x.to_be_bytes() }
#[verifier::external_body]
pub fn slice_copy_from_slice(dst: &mut [u8], src: &[u8])
    requires old(dst)@.len() == src@.len(),      // std panics otherwise
    ensures final(dst)@ == src@,
{ dst.copy_from_slice(src) }
pub assume_specification<T, A: std::alloc::Allocator>[<Vec<T, A> as AsRef<[T]>>::as_ref](v: &Vec<T, A>) -> (r: &[T]) ensures r@ == v@;

// A2b: std::io::Read::read — "Ok(0) means end of file (or an empty buffer)"; at most buf.len() bytes, a prefix of the rest
impl Source {
    #[verifier::external_body]
    pub fn read(&mut self, buf: &mut [u8]) -> (r: Result<usize, IoError>)
        ensures
            final(buf)@.len() == old(buf)@.len(),
            final(self).reliable() == old(self).reliable(),
            match r {
                Ok(n) => n <= old(buf)@.len() && n <= old(self)@.len()
                    && (forall|i: int| 0 <= i < n ==> final(buf)@[i] == old(self)@[i])
                    && final(self)@ == old(self)@.skip(n as int)
                    && (n == 0 && old(buf)@.len() > 0 ==> old(self)@.len() == 0)
                    && (old(self).reliable() && old(buf)@.len() > 0 && old(self)@.len() > 0 ==> n > 0),
                Err(e) => !old(self).reliable() && final(self)@ == old(self)@ },
    { unimplemented!() }
    /// `&[u8]::len()` of an in-memory source
    #[verifier::external_body]
    pub fn len(&self) -> (r: usize) ensures r == self@.len() { unimplemented!() }
}
impl IoError {
    #[verifier::external_body]
    pub fn is_interrupted(&self) -> (r: bool) ensures r == (self.k == ErrorKind::Interrupted) { self.k == ErrorKind::Interrupted }
}

// A2: read_exact into a whole Vec<u8> (`&mut vec` / `&mut vec[..]` deref to &mut [u8])
#[verifier::external_body]
pub fn read_exact_vec(reader: &mut Source, buf: &mut Vec<u8>) -> (r: Result<(), IoError>)
    ensures
        final(buf)@.len() == old(buf)@.len(),
        final(reader).reliable() == old(reader).reliable(),
        match r {
            Ok(_) => old(reader)@.len() >= old(buf)@.len()
                && final(buf)@ == old(reader)@.subrange(0, old(buf)@.len() as int)
                && final(reader)@ == old(reader)@.skip(old(buf)@.len() as int),
            Err(e) => (old(reader).reliable() ==> old(reader)@.len() < old(buf)@.len()) },
        old(reader).reliable() && old(reader)@.len() >= old(buf)@.len() ==> r is Ok,
{ unimplemented!() }
pub assume_specification[<i64>::unsigned_abs](x: i64) -> (r: u64)
    ensures r as int == (if x >= 0 { x as int } else { -(x as int) });
