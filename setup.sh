#!/bin/bash
# Offline setup: nothing is fetched. Builds the replay binary against /repo with hooks enabled (best effort)
# and warms Verus. Checks rebuild everything they need from /repo's working tree on each run anyway.
cd "$(dirname "$0")"
export CARGO_NET_OFFLINE=true
mkdir -p build evidence replays
if [ -d tools/replay ]; then
  (cd tools/replay && cp -f /repo/Cargo.lock Cargo.lock 2>/dev/null; CARGO_TARGET_DIR=/verif/target cargo build --offline --release 2>&1 | tail -3) || echo "replay build failed (checks will retry)"
fi
verus --version >/dev/null 2>&1 || { echo "verus missing"; exit 1; }
exit 0
